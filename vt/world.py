"""vt.world -- builds one simulated network of real stacks for a case and records
what the monitors need: deliveries per listener, API call results, liveness."""
import os
import threading
import sys
import random
import logging
import collections

from . import engine
from .bus import Bus, StackNode, ScriptNode

REPO = os.environ.get('J1939_REPO', '/repo')
_j1939 = None


def load_j1939():
    """import the repository's package from the working tree, on the virtual clock"""
    global _j1939
    if _j1939 is None:
        import can  # noqa: F401  (python-can is imported on the real clock, before patching)
        import numpy  # noqa: F401
        engine.install()
        if REPO not in sys.path:
            sys.path.insert(0, REPO)
        logging.disable(logging.CRITICAL)
        import j1939
        where = os.path.realpath(os.path.dirname(j1939.__file__))
        if not where.startswith(os.path.realpath(REPO)):
            raise engine.HarnessError('j1939 imported from %s, not from %s' % (where, REPO))
        engine.fixup_modules('j1939')
        # the DLL classes print() on some paths; keep worker stdout clean
        _j1939 = j1939
    return _j1939


class World:
    def __init__(self, seed, dll='j1939-21', latency=(0.0002, 0.005), zero_prob=0.0, spin_limit=20000, eager=None):
        self.j1939 = load_j1939()
        self.sim = engine.new_sim(seed, spin_limit)
        # in half of the worlds a thread woken by a put() of the receive context may be switched to at once, in the middle of the handler that woke it
        if os.environ.get('VERIF_EAGER'):
            self.sim.eager_wake = float(os.environ['VERIF_EAGER'])
        else:
            self.sim.eager_wake = random.Random(seed ^ 0x51ED).choice([0.0, 0.0, 0.5, 1.0]) if eager is None else eager
        self.rng = random.Random(seed)
        self.dll = dll
        self.bus = Bus(self.sim, random.Random(seed ^ 0x9E3779B9), latency, zero_prob)
        self.bus.ts_mode = random.Random(seed ^ 0x7157).choice(['epoch'] * 6 + ['zero', 'zero', 'relative', 'relative'])
        self.bus.shared_msg = random.Random(seed ^ 0x5AED).random() < 0.3
        self.stacks = []
        self.bystander = None
        self.bystander_mode = os.environ.get('VERIF_BYSTANDER') or random.Random(seed ^ 0xB157).choice(['before', 'before', 'after', 'after', 'none', 'none', 'none'])
        self.deliv = collections.defaultdict(list)     # listener key -> [(t, prio, pgn, sa, bytes)]
        self.calls = []                                # (t_call, t_ret, what, result|exc)
        self.harness_problems = []
        self.runaway = []

    # -- construction ---------------------------------------------------------------------
    def add_bystander(self, dll):
        """an ECU object of the same kind in the same process that is NOT connected to the bus, configured differently from the stacks
        under test: whatever they do, its listeners stay silent, it sends nothing after its own start-up, its session tables stay empty and
        its own periodic timer keeps its pace (state shared between objects -- class attributes -- would show here)"""
        keep = self.sim.trace_hook
        self.sim.trace_hook = None
        try:
            n = StackNode(self.bus, 'BY', self.j1939, dll, max_cmdt_packets=7, minimum_tp_rts_cts_dt_interval=0.003, minimum_tp_bam_dt_interval=0.011)
        finally:
            self.sim.trace_hook = keep
        self.bus.nodes.remove(n)
        n.isolated = True
        ev = []
        ticks = []
        c = self.ca(n, 0x7B, identity_number=0x1B57, bypass=True)
        c.subscribe(lambda priority, pgn, sa, timestamp, data: ev.append((self.sim.now, 'ca listener', pgn, sa)))
        n.ecu.subscribe(lambda priority, pgn, sa, timestamp, data: ev.append((self.sim.now, 'ecu listener', pgn, sa)))
        c.subscribe_request(lambda src, dst, pgn: ev.append((self.sim.now, 'request subscriber', pgn, src)))
        n.ecu.add_timer(0.37, lambda cookie: (ticks.append(self.sim.now), True)[1])
        self.bystander = dict(node=n, ca=c, events=ev, ticks=ticks, t_reg=self.sim.now, sent0=len(n.isolated_sent))

    def bystander_problems(self):
        b = self.bystander
        if b is None:
            return []
        out = []
        n = b['node']
        if b['events']:
            out.append('its %s was called (%d calls; first: pgn %05X from SA %02X at %.4f)' % (b['events'][0][1], len(b['events']), b['events'][0][2], b['events'][0][3], b['events'][0][0]))
        if len(n.isolated_sent) > b['sent0']:
            t, cid, data = n.isolated_sent[b['sent0']]
            out.append('it tried to send %d frame(s); first: %08X %s at %.4f' % (len(n.isolated_sent) - b['sent0'], cid, data.hex(), t))
        tb = n.tables()
        if any(tb.values()):
            out.append('its session tables hold entries: %s' % tb)
        if n.job_state is not None and n.job_state.finished:
            out.append('its job thread ended')
        # its own 370 ms timer: calls on the grid t_reg + k * 0.37 (within 2 ms), none missing up to now, none extra
        exp = int((self.sim.now - b['t_reg'] - 0.025) / 0.37)
        tk = b['ticks']
        # (epoch-scale floats: every `deadline += delta` of the library rounds by up to 1.2e-7 s, in either direction; late by up to 20 ms:
        #  a long chain of zero-latency handlers is ONE event of the driver, during which the virtual clock advances by its ticks -- several
        #  milliseconds for a 255-packet exchange -- and no other thread is resumed; state shared between objects shows as whole periods)
        bad = [t for k, t in enumerate(tk) if not (-(2e-6 + 3e-7 * (k + 1)) <= t - (b['t_reg'] + (k + 1) * 0.37) <= 0.02 + 1e-4 * (k + 1))]
        if bad or len(tk) < exp or len(tk) > exp + 1:
            out.append('its own 370 ms timer was called %d times in %.3f s (expected %d), off-grid calls at %s' % (len(tk), self.sim.now - b['t_reg'], exp, [round(t, 4) for t in bad[:3]]))
        return out

    def stack(self, name, dll=None, **kw):
        if self.bystander_mode == 'before' and self.bystander is None:
            self.add_bystander(dll or self.dll)
        n = StackNode(self.bus, name, self.j1939, dll or self.dll, **kw)
        if self.bystander_mode == 'after' and self.bystander is None:
            self.add_bystander(dll or self.dll)
        self.stacks.append(n)
        st = n.job_state
        if st is None:
            self.harness_problems.append('job thread of %s is not under the virtual scheduler' % name)
        return n

    def ca(self, node, addr, name_value=None, bypass=True, **name_kw):
        j = self.j1939
        if name_value is not None:
            nm = j.Name(value=name_value)
        else:
            nm = j.Name(**name_kw)
        c = j.ControllerApplication(nm, addr, bypass)
        node.ecu.add_ca(controller_application=c)
        return c

    def recorder(self, key):
        sim = self.sim
        lst = self.deliv[key]

        def cb(priority, pgn, sa, timestamp, data):
            try:
                b = bytes(data)
            except Exception:
                b = repr(data).encode()
            lst.append((sim.now, priority, pgn, sa, b))
        cb.key = key
        return cb

    def listen_ca(self, ca, key):
        cb = self.recorder(key)
        ca.subscribe(cb)
        return cb

    def listen_ecu(self, node, key, device_address=None):
        cb = self.recorder(key)
        node.ecu.subscribe(cb, device_address)
        return cb

    # -- calls ------------------------------------------------------------------------------
    def call(self, what, fn, *a, **kw):
        """invoke an API call now, recording result/exception and the bus length before/after"""
        t0 = self.sim.now
        n0 = len(self.bus.frames)
        try:
            r = fn(*a, **kw)
            rec = dict(what=what, t0=t0, t1=self.sim.now, ret=r, exc=None, frames_before=n0, frames_after=len(self.bus.frames), thread=threading.get_ident())
        except engine.SimThreadKilled:
            raise
        except engine.Runaway as e:
            self.runaway.append('%s during %s' % (e, what))
            rec = dict(what=what, t0=t0, t1=self.sim.now, ret=None, exc=repr(e), exc_type='Runaway',
                       frames_before=n0, frames_after=len(self.bus.frames), thread=threading.get_ident())
        except Exception as e:
            rec = dict(what=what, t0=t0, t1=self.sim.now, ret=None, exc=repr(e), exc_type=type(e).__name__,
                       frames_before=n0, frames_after=len(self.bus.frames), thread=threading.get_ident())
        self.calls.append(rec)
        return rec

    def run(self, until):
        if self.runaway:
            return
        try:
            self.sim.run(until=until)
        except engine.Runaway as e:
            self.runaway.append(str(e))

    # -- liveness -------------------------------------------------------------------------
    def liveness_problems(self):
        out = []
        for name, exc, tb in self.sim.dead:
            last = ''
            for ln in tb.strip().splitlines():
                if 'File "' in ln and '/j1939/' in ln:
                    last = ln.strip()
            kind = 'spin' if 'SpinDetected' in exc else ('runaway' if 'Runaway' in exc else 'thread_died')
            out.append(dict(kind=kind, thread=name, exc=exc, where=_where(last)))
        for r in self.runaway:
            out.append(dict(kind='runaway', thread='driver', exc='Runaway(%s)' % r, where=''))
        return out

    def close(self):
        engine.end_sim()


def _where(line):
    # 'File "/repo/j1939/j1939_21.py", line 164, in async_job_thread'
    try:
        f = line.split('"')[1].split('/')[-1]
        rest = line.split('"')[2]
        fn = rest.split(' in ')[-1].strip()
        return '%s:%s' % (f, fn)
    except Exception:
        return ''
