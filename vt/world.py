"""vt.world -- builds one simulated network of real stacks for a case and records
what the monitors need: deliveries per listener, API call results, liveness."""
import os
import sys
import random
import logging
import collections

from . import engine
from .bus import Bus, StackNode, ScriptNode

REPO = os.environ.get('J1939_REPO', '/repo')
_j1939 = None


def load_j1939():
    """import the repository's package from the working tree, on the virtual clock"""
    global _j1939
    if _j1939 is None:
        import can  # noqa: F401  (python-can is imported on the real clock, before patching)
        import numpy  # noqa: F401
        engine.install()
        if REPO not in sys.path:
            sys.path.insert(0, REPO)
        logging.disable(logging.CRITICAL)
        import j1939
        where = os.path.realpath(os.path.dirname(j1939.__file__))
        if not where.startswith(os.path.realpath(REPO)):
            raise engine.HarnessError('j1939 imported from %s, not from %s' % (where, REPO))
        engine.fixup_modules('j1939')
        # the DLL classes print() on some paths; keep worker stdout clean
        _j1939 = j1939
    return _j1939


class World:
    def __init__(self, seed, dll='j1939-21', latency=(0.0002, 0.005), zero_prob=0.0, spin_limit=20000, eager=None):
        self.j1939 = load_j1939()
        self.sim = engine.new_sim(seed, spin_limit)
        # in half of the worlds a thread woken by a put() of the receive context may be switched to at once, in the middle of the handler that woke it
        if os.environ.get('VERIF_EAGER'):
            self.sim.eager_wake = float(os.environ['VERIF_EAGER'])
        else:
            self.sim.eager_wake = random.Random(seed ^ 0x51ED).choice([0.0, 0.0, 0.5, 1.0]) if eager is None else eager
        self.rng = random.Random(seed)
        self.dll = dll
        self.bus = Bus(self.sim, random.Random(seed ^ 0x9E3779B9), latency, zero_prob)
        self.bus.ts_mode = random.Random(seed ^ 0x7157).choice(['epoch'] * 6 + ['zero', 'zero', 'relative', 'relative'])
        self.stacks = []
        self.deliv = collections.defaultdict(list)     # listener key -> [(t, prio, pgn, sa, bytes)]
        self.calls = []                                # (t_call, t_ret, what, result|exc)
        self.harness_problems = []
        self.runaway = []

    # -- construction ---------------------------------------------------------------------
    def stack(self, name, dll=None, **kw):
        n = StackNode(self.bus, name, self.j1939, dll or self.dll, **kw)
        self.stacks.append(n)
        st = n.job_state
        if st is None:
            self.harness_problems.append('job thread of %s is not under the virtual scheduler' % name)
        return n

    def ca(self, node, addr, name_value=None, bypass=True, **name_kw):
        j = self.j1939
        if name_value is not None:
            nm = j.Name(value=name_value)
        else:
            nm = j.Name(**name_kw)
        c = j.ControllerApplication(nm, addr, bypass)
        node.ecu.add_ca(controller_application=c)
        return c

    def recorder(self, key):
        sim = self.sim
        lst = self.deliv[key]

        def cb(priority, pgn, sa, timestamp, data):
            try:
                b = bytes(data)
            except Exception:
                b = repr(data).encode()
            lst.append((sim.now, priority, pgn, sa, b))
        cb.key = key
        return cb

    def listen_ca(self, ca, key):
        cb = self.recorder(key)
        ca.subscribe(cb)
        return cb

    def listen_ecu(self, node, key, device_address=None):
        cb = self.recorder(key)
        node.ecu.subscribe(cb, device_address)
        return cb

    # -- calls ------------------------------------------------------------------------------
    def call(self, what, fn, *a, **kw):
        """invoke an API call now, recording result/exception and the bus length before/after"""
        t0 = self.sim.now
        n0 = len(self.bus.frames)
        try:
            r = fn(*a, **kw)
            rec = dict(what=what, t0=t0, t1=self.sim.now, ret=r, exc=None, frames_before=n0, frames_after=len(self.bus.frames))
        except engine.SimThreadKilled:
            raise
        except engine.Runaway as e:
            self.runaway.append('%s during %s' % (e, what))
            rec = dict(what=what, t0=t0, t1=self.sim.now, ret=None, exc=repr(e), exc_type='Runaway',
                       frames_before=n0, frames_after=len(self.bus.frames))
        except Exception as e:
            rec = dict(what=what, t0=t0, t1=self.sim.now, ret=None, exc=repr(e), exc_type=type(e).__name__,
                       frames_before=n0, frames_after=len(self.bus.frames))
        self.calls.append(rec)
        return rec

    def run(self, until):
        if self.runaway:
            return
        try:
            self.sim.run(until=until)
        except engine.Runaway as e:
            self.runaway.append(str(e))

    # -- liveness -------------------------------------------------------------------------
    def liveness_problems(self):
        out = []
        for name, exc, tb in self.sim.dead:
            last = ''
            for ln in tb.strip().splitlines():
                if 'File "' in ln and '/j1939/' in ln:
                    last = ln.strip()
            kind = 'spin' if 'SpinDetected' in exc else ('runaway' if 'Runaway' in exc else 'thread_died')
            out.append(dict(kind=kind, thread=name, exc=exc, where=_where(last)))
        for r in self.runaway:
            out.append(dict(kind='runaway', thread='driver', exc='Runaway(%s)' % r, where=''))
        return out

    def close(self):
        engine.end_sim()


def _where(line):
    # 'File "/repo/j1939/j1939_21.py", line 164, in async_job_thread'
    try:
        f = line.split('"')[1].split('/')[-1]
        rest = line.split('"')[2]
        fn = rest.split(' in ')[-1].strip()
        return '%s:%s' % (f, fn)
    except Exception:
        return ''
