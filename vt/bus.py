"""vt.bus -- the simulated CAN segment, stack nodes and scripted nodes.

A *stack node* wraps a real ``j1939.ElectronicControlUnit`` built with the documented
``send_message=`` hook; frames enter it through its real ``MessageListener``.  A
*scripted node* is any object with ``on_frame(frame)``.

Bus order is preserved per receiver; a frame is delivered to each other node after a
latency drawn from the case's profile.  Latency zero is delivered *re-entrantly inside
the sender's send call* (the sequential image of "the notifier thread handled the reply
before bus.send returned").
"""
import threading
import collections
import can

from . import engine


class Frame:
    __slots__ = ('idx', 't', 'src', 'can_id', 'data', 'fd', 'ext', 'remote', 'error', 'lost', 'silenced', 'thread', 'msg')

    def __init__(self, idx, t, src, can_id, data, fd=False, ext=True, remote=False, error=False):
        self.idx = idx
        self.t = t
        self.src = src
        self.can_id = can_id
        self.data = bytes(data)
        self.fd = fd
        self.ext = ext
        self.remote = remote
        self.error = error
        self.lost = False
        self.silenced = False
        self.thread = None
        self.msg = None

    # decoded identifier fields (plain arithmetic, independent of the repository)
    @property
    def prio(self):
        return (self.can_id >> 26) & 7

    @property
    def pf(self):
        return (self.can_id >> 16) & 0xFF

    @property
    def ps(self):
        return (self.can_id >> 8) & 0xFF

    @property
    def sa(self):
        return self.can_id & 0xFF

    @property
    def dp(self):
        return (self.can_id >> 24) & 1

    def brief(self):
        return '%.6f %s %08X %s%s' % (self.t, self.src, self.can_id, self.data.hex(),
                                       ' LOST' if self.lost else (' SILENCED' if self.silenced else ''))

    def as_json(self):
        return [round(self.t, 6), self.src, '%08X' % self.can_id, self.data.hex(),
                ('L' if self.lost else '') + ('S' if self.silenced else '')]


class Bus:
    def __init__(self, sim, rng, latency=(0.0002, 0.005), zero_prob=0.0):
        self.sim = sim
        self.rng = rng
        self.nodes = []
        self.frames = []            # every frame handed to a send backend, in bus order
        self.latency = latency
        self.zero_prob = zero_prob
        self.lose = set()           # indices (1-based count of frames that reach the wire) to lose
        self.silence = {}           # node name -> k : that node is silent from its k-th frame on (1-based)
        self.sent_by = collections.Counter()
        self.wire_count = 0
        self.rx_exc = []            # exceptions that escaped a listener (should not happen)
        self.on_frame_hooks = []    # callables(frame) run right after a frame is logged
        self.faults_active = True
        self.fault_times = []
        self.max_frames = 150000    # a case that puts more on the bus is a runaway of the code under test
        self.runaway = None
        self.delivered = []         # (t, node name, frame idx) for every delivery (who has seen what, when)
        # what the interface writes into can.Message.timestamp: the epoch clock, nothing (0.0, the default of can.Message and of interfaces
        # without time stamping), or seconds since start-up -- the stack must not depend on it
        self.ts_mode = 'epoch'
        self.shared_msg = False     # every receiving stack gets the same can.Message object for a frame (as with one can.Notifier), not a copy

    def timestamp(self):
        if self.ts_mode == 'zero':
            return 0.0
        if self.ts_mode == 'relative':
            return self.sim.now
        return self.sim.EPOCH + self.sim.now

    def add(self, node):
        self.nodes.append(node)
        node.bus = self
        return node

    def transmit(self, src, can_id, data, fd=False, ext=True, remote=False, error=False):
        sim = self.sim
        if len(self.frames) >= self.max_frames:
            if self.runaway is None:
                self.runaway = dict(t=sim.now, src=src.name if src is not None else None, last=self.frames[-1].brief())
            raise engine.Runaway('node %s put more than %d frames on the bus' % (src.name if src is not None else None, self.max_frames))
        fr = Frame(len(self.frames), sim.now, src.name if src is not None else None, can_id, data, fd, ext, remote, error)
        fr.thread = threading.get_ident()        # which thread handed the frame to the send backend
        self.frames.append(fr)
        if src is not None:
            self.sent_by[src.name] += 1
            k = self.silence.get(src.name)
            if self.faults_active and k is not None and self.sent_by[src.name] >= k:
                fr.silenced = True
                self.fault_times.append(sim.now)
        if not fr.silenced:
            self.wire_count += 1
            if self.faults_active and self.wire_count in self.lose:
                fr.lost = True
                self.fault_times.append(sim.now)
        for h in self.on_frame_hooks:
            h(fr)
        if fr.silenced or fr.lost:
            return fr
        for n in self.nodes:
            if n is src:
                continue
            # (while a receive handler is suspended in favour of a woken thread nothing is delivered re-entrantly: the receiver's own receive
            #  thread may be the suspended one, and a stack has only one)
            # (nor while another thread holds a lock of the code under test: the receiving stack's handler would run in THIS thread and could
            #  wait for that lock, which its own receive thread would not hold the sender up with)
            if self.zero_prob and not sim.eager_depth and not n.pending and n.last_delivery <= sim.now and self.rng.random() < self.zero_prob \
                    and not sim.lock_held_by_other_thread() \
                    and (not hasattr(n, 'can_reenter') or n.can_reenter()):
                n.last_delivery = sim.now
                self.deliver(n, fr, reentrant=True)
            else:
                lat = self.rng.uniform(*self.latency)
                t = max(sim.now + lat, n.last_delivery + 1e-7)
                n.last_delivery = t
                n.pending += 1
                sim.at(t, self.deliver_later, n, fr)
        return fr

    def deliver_later(self, node, fr):
        q = node.__dict__.setdefault('deferred', [])
        if q or (self.sim.drive_depth and getattr(node, 'in_handler', 0)):
            # the driver is waiting for a lock in the middle of a handler of this very stack: its (only) receive thread is busy, the frame
            # (and every later one, in order) waits
            q.append(fr)
            if len(q) == 1:
                self.sim.after(2e-5, self._flush_deferred, node)
            return
        node.pending -= 1
        self.deliver(node, fr)

    def _flush_deferred(self, node):
        q = node.deferred
        while q:
            if self.sim.drive_depth and getattr(node, 'in_handler', 0):
                self.sim.after(2e-5, self._flush_deferred, node)
                return
            fr = q.pop(0)
            node.pending -= 1
            self.deliver(node, fr)

    def deliver(self, node, fr, reentrant=False):
        self.delivered.append((self.sim.now, node.name, fr.idx))
        try:
            if reentrant:
                self.sim.reentrant_depth += 1
                try:
                    if isinstance(node, StackNode):
                        node.on_frame(fr, reentrant=True)
                    else:
                        node.on_frame(fr)
                finally:
                    self.sim.reentrant_depth -= 1
            else:
                node.on_frame(fr)
        except (engine.SimThreadKilled, engine.Runaway):
            raise
        except Exception as e:          # a listener must never let one out; recorded, judged by the checks
            self.rx_exc.append((self.sim.now, node.name, repr(e)))


def order_fingerprint(frames, limit=4000):
    """hash of the bus order (who sent which kind of frame, in which order) -- two cases with the same fingerprint saw the same interleaving"""
    import hashlib
    h = hashlib.blake2b(digest_size=8)
    for f in frames[:limit]:
        h.update(('%s/%02X/%s;' % (f.src, (f.can_id >> 16) & 0xFF, f.data[:1].hex())).encode())
    return h.hexdigest()


class StackNode:
    """a real ElectronicControlUnit on the simulated bus"""

    def __init__(self, bus, name, j1939, dll='j1939-21', rx_thread=False, rx_trace=None, **kw):
        self.name = name
        self.last_delivery = 0.0
        self.pending = 0            # deliveries scheduled but not yet made (a later frame must not overtake them)
        self.j1939 = j1939
        # rx_thread: received frames are handled by a controlled thread of their own (the image of python-can's Notifier thread) instead of
        # by the driver, so that the handler itself can be suspended at a source line (rx_trace) while the job thread runs
        self.rxq = None
        self.rx_state = None
        self.rx_busy = False
        self.reentrant_depth = 0
        self.send_time = 0           # seconds (or (lo, hi)) the send backend blocks its caller after the frame is out
        self.slow_sends = 0
        self.slow_log = []          # (t0, t1) of every blocking send: time the stack could not use for anything else in that thread
        self.isolated = False
        self.isolated_sent = []
        self.send_calls = 0
        self.fail_sends = set()     # 1-based numbers of the send calls the backend refuses with can.CanError
        self.send_failures = 0
        self.fail_pred = None       # or a predicate(can_id, data) -> True: refuse this frame
        self.in_handler = 0         # > 0 while the driver executes a handler of this stack
        self.notify_exc = collections.Counter()    # exceptions raised by ecu.notify (contained by the listener)
        self.notify_exc_samples = []
        before = set(bus.sim.states)
        self.ecu = j1939.ElectronicControlUnit(data_link_layer=dll, send_message=self._send, **kw)
        self.dll = getattr(self.ecu, 'j1939_dll', None)
        # the integration surface for received frames: the ECU's own MessageListener (or a fresh one of the public class)
        ls = getattr(self.ecu, '_listeners', None)
        if ls:
            self.listener = ls[0]
        else:
            import importlib
            self.listener = importlib.import_module('j1939.electronic_control_unit').MessageListener(self.ecu)
        self.rx_frames = 0
        bus.add(self)
        if rx_thread:
            self.rxq = engine.VQueue()
            keep = bus.sim.trace_hook
            bus.sim.trace_hook = rx_trace
            try:
                th = bus.sim.spawn(self._rx_loop, name='rx:' + name)
            finally:
                bus.sim.trace_hook = keep
            self.rx_state = th.st
        # the job thread = the controlled thread that came into being while the ECU was constructed (private name used only as a hint)
        jt = getattr(self.ecu, '_job_thread', None)
        self.job_state = getattr(jt, 'st', None)
        if self.job_state is None:
            new = [th for th in bus.sim.states if th not in before]
            if len(new) == 1:
                self.job_state = bus.sim.states[new[0]]
        if self.job_state is not None:
            self.job_state.is_job = True
            self.job_state.name = 'job:' + name
            self.job_state.sleep_hook = self._check_sleep
        self.sleep_checks = 0
        self.fd_layer = '22' in str(dll)
        self.sleep_problems = []
        # count what ecu.notify raises without changing what the listener sees
        inner = self.ecu.notify

        def notify(can_id, data, timestamp, _inner=inner):
            try:
                return _inner(can_id, data, timestamp)
            except Exception as e:
                self.notify_exc[type(e).__name__] += 1
                if len(self.notify_exc_samples) < 5:
                    self.notify_exc_samples.append(repr(e)[:120])
                raise
        self.ecu.notify = notify

    # send backend handed to the ECU: same can.Message construction as the real send_message
    def _send(self, can_id, extended_id, data, fd_format=False):
        if self.isolated:
            # not connected to the bus (bystander): whatever it tries to send is recorded, nothing is delivered
            self.isolated_sent.append((self.bus.sim.now, can_id, bytes(data)))
            return
        self.send_calls += 1
        if self.send_calls in self.fail_sends or (self.fail_pred is not None and self.fail_pred(can_id, data)):
            # fault injection: the driver refuses the frame (nothing reaches the bus)
            self.send_failures += 1
            raise can.CanError('injected: the interface refused frame #%d' % self.send_calls)
        msg = can.Message(is_extended_id=extended_id, arbitration_id=can_id, data=data,
                          is_fd=fd_format, bitrate_switch=fd_format)
        self.bus.transmit(self, msg.arbitration_id, bytes(msg.data), fd=fd_format, ext=bool(extended_id))
        if self.send_time:
            # a slow interface: the send call returns only some time after the frame went out (the calling thread is blocked that long;
            # only controlled threads can be -- the driver plays threads that are not modelled as blocking)
            sim = self.bus.sim
            st = sim.states.get(threading.current_thread())
            if st is not None and sim.current is st and not sim.reentrant_depth:
                d = self.send_time if not isinstance(self.send_time, tuple) else self.bus.rng.uniform(*self.send_time)
                self.slow_sends += 1
                self.slow_log.append((sim.now, sim.now + d))
                engine._vsleep(d)

    def can_reenter(self):
        """may a frame be handled re-entrantly (inside the sender's send call) right now?  Only if this stack's receive thread is not in the
        middle of a handler -- unless the caller IS that thread (the reply to a frame it is just sending)"""
        if self.rxq is None:
            return True
        if threading.current_thread() is self.rx_state.thread:
            return True
        return not self.rx_busy and not self.rxq.items and not self.reentrant_depth

    def _rx_loop(self):
        while True:
            fr = self.rxq.get()
            self.rx_busy = True
            try:
                self.handle(fr)
            except (engine.SimThreadKilled, engine.Runaway, engine.SpinDetected):
                raise
            except Exception as e:
                self.bus.rx_exc.append((self.bus.sim.now, self.name, repr(e)))
            finally:
                self.rx_busy = False

    def on_frame(self, fr, reentrant=False):
        if self.rxq is not None and not reentrant:
            self.rxq.put(fr)
            return
        self.reentrant_depth += 1
        self.in_handler += 1
        try:
            self.handle(fr)
        finally:
            self.reentrant_depth -= 1
            self.in_handler -= 1

    def handle(self, fr):
        self.rx_frames += 1
        m = fr.msg if self.bus.shared_msg else None
        if m is None:
            m = can.Message(is_extended_id=fr.ext, arbitration_id=fr.can_id, data=bytearray(fr.data),
                            is_fd=fr.fd, is_remote_frame=fr.remote, is_error_frame=fr.error,
                            timestamp=self.bus.timestamp(), check=False)
            if self.bus.shared_msg:
                fr.msg = m          # python-can's Notifier hands the SAME Message object to every listener
        self.listener.on_message_received(m)

    def _check_sleep(self, now, timeout, held=0.0):
        """M-WAKE (invariant at a hook): the job thread is about to sleep on an EMPTY wake-up queue for `timeout` seconds.  No deadline that
        is pending right now -- of a transport session, a Multi-PG buffer or a timer -- may lie before the end of that sleep (by more than a
        millisecond): nothing would wake the thread for it.  Deadlines are read tolerantly from the private tables; what cannot be read is
        not judged."""
        if timeout is None:
            end = float('inf')
        else:
            end = self.bus.sim.EPOCH + now + timeout
        pend = []
        try:
            for nm in ('_snd_buffer', '_rcv_buffer', '_multi_pg_snd_buffer'):
                tab = getattr(self.dll, nm, None)
                if tab:
                    for key, b in list(tab.items()):
                        d = b.get('deadline') if isinstance(b, dict) else None
                        if d:                       # 0 / None = no deadline
                            # (J1939-22 deliberately does not wake the job thread for every data packet: the T1 supervision of a
                            #  running inbound session may be served up to T2 - T1 = 0.5 s late; a legal choice, not judged)
                            lazy = 0.55 if (nm == '_rcv_buffer' and self.fd_layer) else 0.0
                            pend.append((d + lazy, '%s[%#x] state %s' % (nm, key, b.get('state'))))
            for e in list(getattr(self.ecu, '_timer_events', None) or ()):
                d = e.get('deadline') if isinstance(e, dict) else None
                if d:
                    pend.append((d, 'timer (period %s)' % e.get('delta_time')))
        except Exception:
            return
        # only values that are plausibly instants of the (virtual) epoch clock are judged: after a refactor to another time base
        # (time.monotonic, ticks) the private deadlines mean something else and the monitor stands down
        ref_now = self.bus.sim.EPOCH + now
        pend = [(d, w) for (d, w) in pend if isinstance(d, (int, float)) and abs(d - ref_now) < 1e5]
        self.sleep_checks += 1
        if pend:
            d, what = min(pend)
            # injected holds since the thread last slept by itself delay it by their length (e.g. between computing the sleep time and sleeping)
            if d < end - 0.001 - held and len(self.sleep_problems) < 5:
                # suspicious -- confirmed only if the thread really is still in this very sleep 2 ms after that deadline (whoever set the
                # deadline may still be on its way to the wake-up call, e.g. blocked in a slow send)
                sim = self.bus.sim
                st = self.job_state
                mark = st.blocks + 1          # block_current() counts this sleep when it starts, right after this hook
                t_d = d - sim.EPOCH

                def confirm():
                    if not st.finished and st.blocks == mark and st.waiting_on is not None and st.waiting_on is not engine.HOLD:
                        if len(self.sleep_problems) < 5:
                            self.sleep_problems.append((now, timeout, t_d, what))
                sim.at(max(sim.now, t_d) + 0.002, confirm)

    # --- observation helpers (private names read tolerantly) -----------------------------
    def tables(self):
        """sizes of the session tables, or None for a table that cannot be observed"""
        out = {}
        for nm in ('_rcv_buffer', '_snd_buffer', '_multi_pg_snd_buffer'):
            v = getattr(self.dll, nm, None)
            out[nm] = len(v) if v is not None else None
        return out

    def tables_empty(self):
        t = self.tables()
        return all(v in (0, None) for v in t.values())

    def pools(self):
        """FD session pools as lists of booleans (True = free), or None if unobservable"""
        out = {}
        for nm, key in (('_J1939_22__rts_cts_session_list', 'rts'), ('_J1939_22__bam_session_list', 'bam')):
            v = getattr(self.dll, nm, None)
            out[key] = list(v) if v is not None else None
        return out

    def job_alive(self):
        st = self.job_state
        return st is not None and not st.finished

    def job_parked_with_timeout(self):
        """True if the job thread is parked in a blocking wait whose time-out was > 0"""
        st = self.job_state
        if st is not None and st.waiting_on is engine.SLEEP:
            return True          # inside time.sleep() (a slow callback, a slow interface): a timed wait
        if st is not None and st.waiting_on is engine.HOLD:
            return True          # parked by the harness at a pre-emption point: says nothing about the code under test
        if st is None or st.finished or st.waiting_on is None:
            return False
        if not st.waits:
            return False
        t = st.waits[-1][1]
        return t is None or t > 0


class ScriptNode:
    """base class for scripted peers: plain objects that see and emit frames"""

    def __init__(self, bus, name):
        self.name = name
        self.last_delivery = 0.0
        self.pending = 0            # deliveries scheduled but not yet made (a later frame must not overtake them)
        self.seen = []
        bus.add(self)

    def on_frame(self, fr):
        self.seen.append(fr)

    def send(self, can_id, data, fd=False, ext=True, remote=False, error=False):
        return self.bus.transmit(self, can_id, data, fd=fd, ext=ext, remote=remote, error=error)

    def send_fields(self, prio, pf, ps, sa, data, dp=0, fd=False):
        return self.send((prio << 26) | (dp << 24) | (pf << 16) | (ps << 8) | sa, data, fd=fd)
