"""vt.obsdict -- a dict that logs when entries appear and disappear (virtual time).

Installed from the harness in place of a stack's session table (same type semantics: it *is* a dict);
if the attribute does not exist or is not a plain dict the table is simply not observed."""


class ObsDict(dict):
    def __init__(self, sim, name, *a):
        super().__init__(*a)
        self._sim = sim
        self._name = name
        self.log = []         # (t, 'set'|'del', key, size after)

    def __setitem__(self, k, v):
        new = k not in self
        super().__setitem__(k, v)
        if new:
            self.log.append((self._sim.now, 'set', k, len(self)))

    def __delitem__(self, k):
        super().__delitem__(k)
        self.log.append((self._sim.now, 'del', k, len(self)))

    def pop(self, k, *d):
        had = k in self
        r = super().pop(k, *d)
        if had:
            self.log.append((self._sim.now, 'del', k, len(self)))
        return r

    def popitem(self):
        k, v = super().popitem()
        self.log.append((self._sim.now, 'del', k, len(self)))
        return k, v

    def clear(self):
        for k in list(self):
            del self[k]

    def setdefault(self, k, d=None):
        if k not in self:
            self[k] = d
        return self[k]

    def update(self, *a, **kw):
        for k, v in dict(*a, **kw).items():
            self[k] = v


def observe_tables(node, sim):
    """replace the DLL's session tables by observing dicts; returns {table name: ObsDict}"""
    out = {}
    for nm in ('_rcv_buffer', '_snd_buffer'):
        cur = getattr(node.dll, nm, None)
        if type(cur) is dict:
            od = ObsDict(sim, nm, cur)
            setattr(node.dll, nm, od)
            out[nm] = od
    return out
