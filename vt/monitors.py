"""vt.monitors -- oracles shared by several checks (DESIGN.md section 4)."""
import collections


def norm_pgn(p):
    """PGNs are compared with the PS byte cleared when PF < 240 (DESIGN.md, PGN*)"""
    return p if ((p >> 8) & 0xFF) >= 240 else (p & 0x3FF00)


def expected_pgn(dp, pf, ps):
    return (dp << 16) | (pf << 8) | (ps if pf >= 240 else 0)


class Violations(list):
    """violations of one case; at most CAP entries per signature are kept (the count is what matters per case)"""
    CAP = 3

    def __init__(self):
        super().__init__()
        self._n = collections.Counter()

    def add(self, kind, msg, **sig):
        s = dict(kind=kind)
        s.update(sig)
        k = repr(sorted(s.items()))
        self._n[k] += 1
        if self._n[k] <= self.CAP:
            self.append(dict(kind=kind, sig=s, msg=msg))


def len_class(n, fd=False):
    if fd:
        if n <= 60:
            return 'mpg'
        return 'tp%d' % (0 if n % 60 == 0 else 1)
    if n <= 8:
        return 'single'
    return 'tp%d' % (0 if n % 7 == 0 else 1)


def m_deliv(viol, expected, observed, eom_ok=None, layer='j1939-21', describe=None):
    """M-DELIV: per listener, the multiset of observed (PGN*, SA, payload) equals the expected one.

    expected: {listener key: [(pgn, sa, bytes, tag)]}   tag = free-form origin info (mode, ...)
    observed: {listener key: [(t, prio, pgn, sa, bytes)]}
    eom_ok(key, (t, prio, pgn, sa, bytes)) -> True if this extra delivery is the permitted
        end-of-message acknowledgement notification (consumes its allowance)
    returns number of deliveries compared
    """
    compared = 0
    for key in sorted(set(expected) | set(observed), key=repr):
        want = collections.defaultdict(list)
        for (pgn, sa, data, tag) in expected.get(key, []):
            want[(norm_pgn(pgn), sa, data)].append(tag)
        seen = collections.Counter()
        for item in observed.get(key, []):
            t, prio, pgn, sa, data = item
            k = (norm_pgn(pgn), sa, data)
            compared += 1
            if want.get(k):
                want[k].pop()
                seen[k] += 1
                continue
            if eom_ok is not None and eom_ok(key, item):
                continue
            if seen.get(k):
                viol.add('duplicate_delivery', 'listener %r got (pgn=%05X sa=%02X len=%d) more often than it was sent (t=%.4f)'
                         % (key, pgn, sa, len(data), t), layer=layer, listener=_lk(key))
                continue
            # is it a corrupted version of something expected (same sa)?
            cand = [kk for kk, v in want.items() if v and kk[1] == sa]
            how = 'unexpected_delivery'
            detail = ''
            for kk in cand:
                if kk[0] == k[0] and kk[2] != data:
                    if len(kk[2]) != len(data):
                        how = 'wrong_length_delivery'
                        detail = ' (expected len %d)' % len(kk[2])
                    else:
                        how = 'corrupt_delivery'
                        bad = [i for i in range(len(data)) if data[i] != kk[2][i]]
                        detail = ' (first differing byte %d of %d)' % (bad[0], len(data))
                    break
                if kk[2] == data and kk[0] != k[0]:
                    how = 'wrong_pgn_delivery'
                    detail = ' (expected pgn %05X)' % kk[0]
                    break
            viol.add(how, 'listener %r got pgn=%05X sa=%02X len=%d data=%s...%s at t=%.4f which nobody sent to it'
                     % (key, pgn, sa, len(data), data[:12].hex(), detail, t), layer=layer, listener=_lk(key))
        for k, tags in want.items():
            for tag in tags:
                viol.add('missing_delivery', 'listener %r never got pgn=%05X sa=%02X len=%d (%s)'
                         % (key, k[0], k[1], len(k[2]), describe(tag) if describe else tag), layer=layer,
                         listener=_lk(key), mode=(tag.get('mode') if isinstance(tag, dict) else None))
    return compared


def _lk(key):
    # listener kind without the node index: ('ca', 2) -> 'ca'
    if isinstance(key, (tuple, list)) and key:
        return str(key[0])
    return str(key)


def m_quiet(viol, world, layer, what='after quiet time'):
    """M-QUIET: tables empty, FD pools full, job thread alive and parked with time-out > 0"""
    observed = 0
    for n in world.stacks:
        tb = n.tables()
        for nm, v in tb.items():
            if v is None:
                continue
            observed += 1
            if v:
                viol.add('session_stuck', '%s: %s still holds %d entr%s %s' % (n.name, nm, v, 'y' if v == 1 else 'ies', what),
                         layer=layer, table=nm)
        if layer == 'j1939-22':
            for nm, v in n.pools().items():
                if v is None:
                    continue
                observed += 1
                if not all(v):
                    viol.add('pool_not_full', '%s: %s session pool %s %s' % (n.name, nm, v, what), layer=layer, pool=nm)
    return observed


def m_live(viol, world, layer):
    """M-LIVE part 1: no controlled thread of the stack died or span"""
    for p in world.liveness_problems():
        viol.add(p['kind'], '%s: %s at %s' % (p['thread'], p['exc'], p['where']), layer=layer, where=p['where'],
                 exc=p['exc'].split('(')[0])
    for msg in world.bystander_problems():
        viol.add('cross_talk', 'an unconnected ECU object in the same process was affected: %s' % msg, layer=layer, what=' '.join(w for w in msg.split(' (')[0].split(':')[0].split() if not w[:1].isdigit())[:40])
    n = 0
    for s in world.stacks:
        n += 1
        for (t, tmo, d, what) in s.sleep_problems[:1]:
            viol.add('sleeps_past_deadline', '%s: at %.4f the job thread went to sleep on an empty wake-up queue for %s s although %s is due at %.4f (nothing will wake it for that)'
                     % (s.name, t, 'ever' if tmo is None else '%.4f' % tmo, what, d), layer=layer, what=what.split('[')[0].split(' (')[0])
        if s.job_alive() and getattr(s.job_state, 'blocked_in_put', False):
            viol.add('job_blocked', '%s: job thread is blocked in put() on a full bounded queue (it is the only consumer: dead-lock)' % s.name, layer=layer)
        elif s.job_alive() and not s.job_parked_with_timeout():
            st = s.job_state
            viol.add('job_not_parked', '%s: job thread is not parked in a wait with a positive time-out (last waits %s)'
                     % (s.name, st.waits[-3:]), layer=layer)
    return n


def probe_timer(world, node, delay=0.05):
    """M-LIVE part 2: register a one-shot timer now; returns a dict filled in when it fires"""
    rec = dict(t_reg=world.sim.now, delay=delay, fired=[])

    def cb(cookie):
        rec['fired'].append(world.sim.now)
        return False
    node.ecu.add_timer(delay, cb)
    return rec


def check_probe_timer(viol, rec, layer, slack=0.002):
    f = rec['fired']
    if len(f) != 1:
        viol.add('timer_probe', 'probe timer registered at %.4f (+%.3f) fired %d times' % (rec['t_reg'], rec['delay'], len(f)), layer=layer, how='count')
        return
    d = f[0] - rec['t_reg']
    if d < rec['delay'] - 1e-9 or d > rec['delay'] + slack:
        viol.add('timer_probe', 'probe timer registered at %.4f (+%.3f) fired after %.4f' % (rec['t_reg'], rec['delay'], d), layer=layer,
                 how='late' if d > rec['delay'] else 'early')
