"""vt.runner -- shards the cases of a check over worker subprocesses, classifies what the
monitors reported against known_findings.json, writes evidence and replay files.

check module interface (checks/cNN.py):
    PROPERTY, LEVEL, RULE, ASSUMPTIONS
    cases(tier, seed)      -> list of JSON case descriptors (deterministic)
    run_case(case)         -> dict(violations=[{kind, sig:{...}, msg}], inconclusive=None|str,
                                   sig=<str, distinct-case signature>, nontrivial=bool,
                                   obs={counter:int}, sample=<json summary>)
    MIN_OBS                -> {counter: minimum over the whole run, else INCONCLUSIVE}
    coverage(results, tier)-> optional extra coverage keys
"""
import os
import sys
import json
import time
import importlib
import subprocess
import collections
import threading
import traceback

HERE = os.path.dirname(os.path.dirname(os.path.abspath(__file__)))
REPO = os.environ.get('J1939_REPO', '/repo')
PY = os.environ.get('VERIF_PYTHON', '/venv/bin/python')
# The guard around one case is decided on the worker's own processor time, not on the wall clock: on a loaded machine a healthy case may
# take minutes of wall time.  It fires when the case has burnt CASE_CPU_LIMIT seconds of processor time (a spin / livelock), or when after
# CASE_WALL_LIMIT seconds of wall time the process has made no progress at all for CASE_IDLE_WINDOW seconds (blocked in a real primitive;
# a starved process still gets a share of a processor), or -- inconclusive only, never a violation -- after CASE_WALL_HARD seconds.
CASE_WALL_LIMIT = float(os.environ.get('VERIF_CASE_WALL', '60'))
CASE_CPU_LIMIT = float(os.environ.get('VERIF_CASE_CPU', '90'))
CASE_IDLE_WINDOW = 20.0
CASE_WALL_HARD = float(os.environ.get('VERIF_CASE_WALL_HARD', '1200'))
MAX_STALLS = 3


def load_check(prop):
    return importlib.import_module('checks.' + prop.lower())


# ------------------------------------------------------------------------------------------
# worker side
# ------------------------------------------------------------------------------------------
class _Watchdog:
    """real-time guard around one case; firing is a stall (in repo code) or inconclusive"""

    def __init__(self, out):
        from . import engine
        self.engine = engine
        self.out = out
        self.case_id = None
        self.t0 = None
        self.lock = threading.Lock()
        t = engine.RealThread(target=self._loop, name='watchdog', daemon=True)
        t.start()

    def arm(self, case_id):
        self.case_id = case_id
        self.cpu0 = time.process_time()
        self.hist = []
        self.t0 = self.engine.real_monotonic()

    def disarm(self):
        self.t0 = None

    def _loop(self):
        eng = self.engine
        while True:
            eng.real_sleep(1.0)
            t0 = self.t0
            if t0 is None:
                continue
            now, cpu = eng.real_monotonic(), time.process_time()
            self.hist.append((now, cpu))
            self.hist = [h for h in self.hist if h[0] >= now - CASE_IDLE_WINDOW - 1.5]
            spinning = cpu - self.cpu0 > CASE_CPU_LIMIT
            blocked = (now - t0 > CASE_WALL_LIMIT and self.hist[0][0] <= now - CASE_IDLE_WINDOW and cpu - self.hist[0][1] < 0.2)
            hard = now - t0 > CASE_WALL_HARD
            if self.t0 is t0 and (spinning or blocked or hard):
                # where is it stuck?  Five samples 40 ms apart; per thread the innermost frame that belongs either to the repository or to the
                # harness (frames of the standard library -- print, logging, queue -- are skipped).  A stall is attributed to the repository
                # if one thread shows a repository frame there in at least four of the five samples (a thread parked by the scheduler shows
                # the engine's frame instead).
                repo_root = os.path.realpath(REPO) + '/j1939'
                verif_root = os.path.realpath(os.path.join(os.path.dirname(os.path.abspath(__file__)), '..'))
                hits = {}
                stacks = {}
                for sample in range(5):
                    for tid, fr in sys._current_frames().items():
                        st = traceback.extract_stack(fr)
                        stacks[str(tid)] = ['%s:%d:%s' % (os.path.basename(f.filename), f.lineno, f.name) for f in st[-8:]]
                        for f in reversed(st):
                            fn = os.path.realpath(f.filename)
                            if fn.startswith(repo_root):
                                hits.setdefault(tid, []).append('%s:%s' % (os.path.basename(f.filename), f.name))
                                break
                            if fn.startswith(verif_root):
                                break
                    eng.real_sleep(0.04)
                where = None
                for tid, lst in hits.items():
                    if len(lst) >= 4:
                        where = max(set(lst), key=lst.count)
                if not (spinning or blocked):
                    where = None         # merely slow on the wall clock: never a verdict on the repository
                rec = dict(id=self.case_id, stalled=True, where=where, stacks=stacks, why='spinning' if spinning else 'blocked' if blocked else 'wall')
                self.out.write(json.dumps(rec) + '\n')
                self.out.flush()
                os._exit(3)


def worker_main(prop, infile, outfile):
    sys.setrecursionlimit(20000)
    try:
        import resource
        lim = int(os.environ.get('VERIF_WORKER_MEM_GB', '3')) << 30
        resource.setrlimit(resource.RLIMIT_AS, (lim, lim))
    except Exception:
        pass
    mod = load_check(prop)
    with open(infile) as f:
        cases = json.load(f)
    out = open(outfile, 'a')
    wd = _Watchdog(out)
    from . import engine
    for case in cases:
        wd.arm(case['id'])
        t0 = engine.real_monotonic()
        c0 = time.process_time()
        try:
            res = mod.run_case(case)
        except engine.HarnessError as e:
            res = dict(violations=[], inconclusive='harness: %s' % e, sig='harness', nontrivial=False, obs={}, sample=None)
        except Exception as e:
            res = dict(violations=[], inconclusive='harness exception: %r\n%s' % (e, traceback.format_exc()[-1500:]),
                       sig='harness', nontrivial=False, obs={}, sample=None)
        finally:
            try:
                engine.end_sim()
            except Exception:
                pass
        wd.disarm()
        res['id'] = case['id']
        res['wall'] = engine.real_monotonic() - t0
        res['cpu'] = time.process_time() - c0
        out.write(json.dumps(res, default=_js) + '\n')
        out.flush()
    out.close()


def _js(o):
    if isinstance(o, (bytes, bytearray)):
        return bytes(o).hex()
    if isinstance(o, (set, frozenset)):
        return sorted(o)
    return repr(o)


# ------------------------------------------------------------------------------------------
# parent side
# ------------------------------------------------------------------------------------------
def _env():
    env = dict(os.environ)
    env['PYTHONPATH'] = HERE + os.pathsep + REPO
    env['PYTHONDONTWRITEBYTECODE'] = '1'
    env['PYTHONHASHSEED'] = '0'
    env['J1939_REPO'] = REPO
    return env


def run_cases(prop, cases, jobs, workdir):
    os.makedirs(workdir, exist_ok=True)
    for fn in os.listdir(workdir):
        os.unlink(os.path.join(workdir, fn))
    jobs = max(1, min(jobs, len(cases)))
    chunks = [cases[i::jobs] for i in range(jobs)]
    procs = []
    for i, ch in enumerate(chunks):
        procs.append(_spawn(prop, ch, workdir, 'w%d' % i))
    results = {}
    problems = []
    pending = procs
    gen = 0
    stalls = [0]
    while pending:
        nxt = []
        for p in pending:
            rc = p['proc'].wait()
            done_ids = set()
            if os.path.exists(p['out']):
                with open(p['out']) as f:
                    for line in f:
                        line = line.strip()
                        if not line:
                            continue
                        try:
                            r = json.loads(line)
                        except ValueError:
                            continue
                        results[r['id']] = r
                        done_ids.add(r['id'])
            rest = [c for c in p['cases'] if c['id'] not in done_ids]
            if rc != 0 and rc != 3:
                err = ''
                try:
                    err = open(p['err']).read()[-2000:]
                except OSError:
                    pass
                if rest:
                    bad = rest[0]
                    results[bad['id']] = dict(id=bad['id'], violations=[], inconclusive='worker died rc=%s: %s' % (rc, err),
                                              sig='harness', nontrivial=False, obs={}, sample=None, wall=0)
                    rest = rest[1:]
                else:
                    problems.append('worker rc=%s after finishing: %s' % (rc, err[-300:]))
            if rc == 3:
                stalls[0] += 1
            if rest and stalls[0] >= MAX_STALLS:
                problems.append('%d cases not run: %d workers already stalled in this run' % (len(rest), stalls[0]))
                rest = []
            if rest:
                gen += 1
                nxt.append(_spawn(prop, rest, workdir, 'r%d' % gen))
        pending = nxt
    return results, problems


def _spawn(prop, cases, workdir, tag):
    inf = os.path.join(workdir, tag + '.in.json')
    outf = os.path.join(workdir, tag + '.out.jsonl')
    errf = os.path.join(workdir, tag + '.err')
    with open(inf, 'w') as f:
        json.dump(cases, f)
    proc = subprocess.Popen([PY, os.path.join(HERE, 'run.py'), '--worker', prop, inf, outf],
                            env=_env(), cwd=HERE, stdout=open(errf, 'w'), stderr=subprocess.STDOUT)
    return dict(proc=proc, cases=cases, out=outf, err=errf)


def load_known():
    p = os.path.join(HERE, 'known_findings.json')
    if not os.path.exists(p):
        return []
    with open(p) as f:
        return json.load(f).get('findings', [])


def match_known(prop, sig, known):
    for k in known:
        if k.get('property') != prop:
            continue
        ks = k.get('sig', {})
        if all(sig.get(a) == b for a, b in ks.items()):
            return k
    return None


def main(argv):
    import argparse
    ap = argparse.ArgumentParser()
    ap.add_argument('prop')
    ap.add_argument('--tier', default=os.environ.get('VERIF_TIER', 'quick'))
    ap.add_argument('--seed', type=int, default=int(os.environ.get('VERIF_SEED', '0') or 0))
    ap.add_argument('--jobs', type=int, default=int(os.environ.get('VERIF_JOBS', '0') or 0))
    ap.add_argument('--replay')
    ap.add_argument('--limit', type=int, default=0)
    ap.add_argument('--no-evidence', action='store_true')
    a = ap.parse_args(argv)
    prop = a.prop.upper()
    tier = a.tier if a.tier in ('quick', 'thorough') else 'quick'
    sys.path.insert(0, HERE)
    os.environ.setdefault('PYTHONHASHSEED', '0')
    if a.replay:
        return replay(prop, a.replay)
    mod = load_check(prop)
    t0 = time.time()
    cases = mod.cases(tier, a.seed)
    for i, c in enumerate(cases):
        c['id'] = i
    if a.limit:
        cases = cases[:a.limit]
    jobs = a.jobs or min(16, os.cpu_count() or 4)
    # unique per invocation: two runs of the same check may be in flight at once
    workdir = os.path.join(HERE, '.work', '%s-%s-%d' % (prop, tier, os.getpid()))
    try:
        results, problems = run_cases(prop, cases, jobs, workdir)
    finally:
        import shutil
        shutil.rmtree(workdir, ignore_errors=True)
    wall = time.time() - t0
    return report(mod, prop, tier, a.seed, cases, results, problems, wall, write_evidence=not a.no_evidence)


def report(mod, prop, tier, seed, cases, results, problems, wall, write_evidence=True):
    known = load_known()
    by_id = {c['id']: c for c in cases}
    viol_new = []
    known_hits = collections.OrderedDict()
    inconclusive = list(problems)
    obs = collections.Counter()
    sigs = set()
    fingerprints = set()          # optional per-case fingerprint of what was observed (e.g. hash of the bus order): distinct executions seen
    nontrivial_sigs = set()
    samples = []
    stalled = 0
    for cid in sorted(by_id):
        r = results.get(cid)
        if r is None:
            inconclusive.append('case %d: no result' % cid)
            continue
        if r.get('stalled'):
            stalled += 1
            if r.get('where'):
                r = dict(id=cid, violations=[dict(kind='stall', sig=dict(kind='stall', where=r['where']),
                                                  msg='wall-clock watchdog fired inside repository code at %s' % r['where'])],
                         inconclusive=None, sig='stall', nontrivial=True, obs={}, sample=None)
            else:
                inconclusive.append('case %d: wall-clock watchdog fired outside repository code' % cid)
                continue
        if r.get('inconclusive'):
            inconclusive.append('case %d: %s' % (cid, str(r['inconclusive'])[:600]))
        for k, v in (r.get('obs') or {}).items():
            if isinstance(v, (int, float)):
                if '_max' in k:
                    obs[k] = max(obs.get(k, 0), v)     # counters named *_max* aggregate by maximum
                else:
                    obs[k] += v
        sigs.add(r.get('sig'))
        if r.get('fingerprint') is not None:
            fingerprints.add(r['fingerprint'])
        if r.get('nontrivial'):
            nontrivial_sigs.add(r.get('sig'))
        if r.get('sample') is not None and len(samples) < 4 and r.get('nontrivial'):
            samples.append(r['sample'])
        for v in r.get('violations') or []:
            k = match_known(prop, v.get('sig', {}), known)
            if k is not None:
                key = json.dumps(k.get('sig'), sort_keys=True)
                ent = known_hits.setdefault(key, dict(what=k.get('what', ''), n=0, first_case=cid))
                ent['n'] += 1
            else:
                viol_new.append((cid, v))
    # minimum observation counters: a run whose deciding monitor saw nothing is not "held"
    unless = getattr(mod, 'MIN_OBS_UNLESS', {})      # counter -> other counter: the minimum is waived when the other counter is > 0
    for k, mn in getattr(mod, 'MIN_OBS', {}).items():
        if k in unless and obs.get(unless[k], 0) > 0:
            continue
        m = mn.get(tier, 1) if isinstance(mn, dict) else mn
        if obs.get(k, 0) < m:
            inconclusive.append('monitor counter %s=%d below the minimum %d for this tier' % (k, obs.get(k, 0), m))
    if not samples:
        for cid in sorted(by_id):
            r = results.get(cid)
            if r and r.get('sample') is not None:
                samples.append(r['sample'])
                if len(samples) >= 2:
                    break
    # output
    rc = 0
    for key, ent in known_hits.items():
        print('KNOWN-FINDING: property=%s %s (%d cases this run, e.g. case %d; sig=%s)' % (prop, ent['what'], ent['n'], ent['first_case'], key))
    if viol_new:
        rc = 1
        os.makedirs(os.path.join(HERE, 'replays'), exist_ok=True)
        seen = set()
        n_printed = 0
        for cid, v in viol_new:
            sk = json.dumps(v.get('sig', {}), sort_keys=True)
            if sk in seen:
                continue
            seen.add(sk)
            path = os.path.join(HERE, 'replays', '%s-%s-seed%d-case%d.json' % (prop, tier, seed, cid))
            with open(path, 'w') as f:
                json.dump(dict(property=prop, case=by_id[cid], violation=v), f, indent=1, default=_js)
            if n_printed < 12:
                print('VIOLATION property=%s replay=%s' % (prop, path))
                print('  kind=%s sig=%s' % (v.get('kind'), sk))
                print('  %s' % str(v.get('msg'))[:700])
                n_printed += 1
        print('%d violating observations, %d distinct signatures' % (len(viol_new), len(seen)))
    elif inconclusive:
        rc = 2
        print('INCONCLUSIVE property=%s %d problem(s)' % (prop, len(inconclusive)))
        for s in inconclusive[:8]:
            print('  ' + s)
    if write_evidence:
        cov = dict(evaluations=len(results), distinct_nontrivial=len(nontrivial_sigs), rule=getattr(mod, 'RULE', ''),
                   samples=samples, distinct_signatures=len(sigs), monitor_counters=dict(sorted(obs.items())),
                   known_finding_hits={k: v['n'] for k, v in known_hits.items()}, inconclusive=inconclusive[:10],
                   workers_stalled=stalled)
        if fingerprints:
            cov['distinct_observed_executions'] = len(fingerprints)
        extra = getattr(mod, 'coverage', None)
        if extra:
            try:
                cov.update(extra([results[i] for i in sorted(results)], tier))
            except Exception as e:
                cov['coverage_error'] = repr(e)
        ev = dict(property_id=prop, tier=tier, seed=seed, level=getattr(mod, 'LEVEL', 'exploration'), coverage=cov,
                  assumptions=getattr(mod, 'ASSUMPTIONS', []), wall_s=round(wall, 2), violations=len(viol_new),
                  verdict='violated' if rc == 1 else ('inconclusive' if rc == 2 else 'held on what was observed'))
        os.makedirs(os.path.join(HERE, 'evidence'), exist_ok=True)
        with open(os.path.join(HERE, 'evidence', prop + '.json'), 'w') as f:
            json.dump(ev, f, indent=1, default=_js)
            f.write('\n')
    if os.environ.get('VERIF_PRINT_COUNTERS'):
        print('COUNTERS ' + json.dumps(dict(sorted(obs.items()))))
        print('SLOWEST cpu=%.1fs wall=%.1fs' % (max([r.get('cpu', 0) for r in results.values()] + [0]), max([r.get('wall', 0) for r in results.values()] + [0])))
    print('%s %s seed=%d: %d cases, %d distinct non-trivial, %d new violations, %d known-finding signatures, %.1fs -> %s'
          % (prop, tier, seed, len(results), len(nontrivial_sigs), len(viol_new), len(known_hits), wall,
             {0: 'HELD', 1: 'VIOLATED', 2: 'INCONCLUSIVE'}[rc]))
    return rc


def replay(prop, path):
    sys.path.insert(0, HERE)
    with open(path) as f:
        rp = json.load(f)
    case = rp['case']
    case['trace'] = True
    env = _env()
    p = subprocess.run([PY, os.path.join(HERE, 'run.py'), '--replay-worker', prop, path], env=env, cwd=HERE)
    return p.returncode


def replay_worker(prop, path):
    mod = load_check(prop)
    with open(path) as f:
        rp = json.load(f)
    case = rp['case']
    case['trace'] = True
    # the repository print()s on some paths; keep stdout clean for the JSON
    import io
    real_out = sys.stdout
    sys.stdout = io.StringIO()
    try:
        res = mod.run_case(case)
    finally:
        sys.stdout = real_out
    print(json.dumps(dict(violations=res.get('violations'), inconclusive=res.get('inconclusive'), obs=res.get('obs'),
                          sample=res.get('sample'), trace=res.get('trace')), indent=1, default=_js))
    return 1 if res.get('violations') else 0
