"""vt.preempt -- random line-level pre-emption of a controlled thread in repository code.

`random_tracer` returns a trace hook (for `sim.trace_hook` while a stack is built = its job thread, or for
`StackNode(rx_thread=True, rx_trace=...)` = its receive thread).  With probability p per executed source line of a file under
<repo>/j1939 the thread is parked there for one of `holds` seconds of virtual time while everything else goes on.
No hold starts while a frame is being handled re-entrantly inside a send call: the suspended code would be another stack's
handler running in this thread, and that stack's own receive thread could then run a second handler concurrently.
"""
import os
import random

from . import engine


def repo_dir():
    from .world import REPO
    return os.path.realpath(os.path.join(REPO, 'j1939')) + os.sep


def random_tracer(sim, seed, p=0.004, holds=(0.0002, 0.001, 0.002), on=None, counter=None, holding=None, kick=None, max_holds=None, log=None):
    jdir = repo_dir()
    prng = random.Random(seed)

    def local(frame, event, arg):
        if event == 'line' and (on is None or on[0]) and not sim.reentrant_depth and prng.random() < p \
                and (max_holds is None or counter is None or counter[0] < max_holds):
            h = prng.choice(holds)
            if log is not None:
                log.append((sim.now, sim.now + h, frame.f_code.co_name, frame.f_lineno))
            if counter is not None:
                counter[0] += 1
            if kick is not None:
                kick(h)
            if holding is not None:
                holding[0] += 1
            try:
                sim.block_current(until=sim.now + h, waitobj=engine.HOLD, jitter=False)
            finally:
                if holding is not None:
                    holding[0] -= 1
        return local

    def tracer(frame, event, arg):
        if event != 'call' or not frame.f_code.co_filename.startswith(jdir):
            return None
        return local
    return tracer
