"""vt.engine -- deterministic virtual-time co-simulation of the *real* j1939 stack.

The repository's code runs unmodified: the real ``_async_job_thread`` in a real
OS thread, the real listener, the real DLL classes.  What is virtual is time and
blocking: ``time.time`` & co, ``queue.Queue`` and ``threading.Thread`` are
replaced (process-wide, before ``j1939`` is imported; the names are additionally
re-bound inside already imported j1939 modules) by look-alikes that

* keep exactly one controlled thread running at a time (a baton),
* advance a virtual clock only between events,
* make every blocking ``Queue.get`` a wait in virtual time.

The driver (the main thread) owns an event heap and plays the role of the
python-can notifier thread when it delivers frames.

Nothing in here imports j1939.
"""
import sys
import heapq
import weakref
import threading
import queue as _queue_mod
import time as _time_mod
import itertools
import collections
import traceback
import random

# ---- originals, captured before anything is patched ---------------------------------
RealThread = threading.Thread
RealQueue = _queue_mod.Queue
RealEvent = threading.Event
real_time = _time_mod.time
real_monotonic = _time_mod.monotonic
real_perf_counter = _time_mod.perf_counter
real_sleep = _time_mod.sleep
Empty = _queue_mod.Empty
Full = _queue_mod.Full

SLEEP = 'time.sleep'        # waitobj of a thread inside (virtual) time.sleep(): a timed wait like any other
HOLD = 'injected hold'      # waitobj of a thread parked by the harness at a pre-emption point (not a wait of the code under test)
CUR = None          # the active Sim (one per case), or None -> pass-through behaviour


class SpinDetected(BaseException):
    """raised inside a controlled thread that called the clock too often without blocking"""


class SimThreadKilled(BaseException):
    """raised inside a parked controlled thread when the case is torn down"""


class Runaway(BaseException):
    """the code under test floods the bus / the event queue without bound"""


class HarnessError(Exception):
    """the harness itself is in a state it cannot interpret -> case is inconclusive"""


class ThreadState:
    __slots__ = ('name', 'go', 'token', 'finished', 'started', 'time_calls', 'blocks', 'waiting_on',
                 'kill', 'exc', 'tb', 'waits', 'is_job', 'max_time_calls', 'thread', 'blocked_in_put', 'sleep_hook', 'hold_acc')

    def __init__(self, name):
        self.name = name
        self.go = threading.Semaphore(0)
        self.token = 0
        self.finished = False
        self.started = False
        self.time_calls = 0
        self.max_time_calls = 0
        self.blocks = 0
        self.waiting_on = None
        self.kill = False
        self.exc = None
        self.tb = None
        self.waits = []          # (virtual now, timeout) of every blocking wait (bounded)
        self.is_job = False
        self.thread = None
        self.blocked_in_put = False
        self.sleep_hook = None
        self.hold_acc = 0.0          # virtual time this thread spent parked by the harness (HOLD) since it last went to sleep by itself


class Sim:
    EPOCH = 1.7e9     # virtual "wall clock" origin; large like the real epoch

    def __init__(self, seed=0, spin_limit=20000):
        self.now = 0.0
        self.heap = []
        self.seq = itertools.count()
        self.main = threading.current_thread()
        self.back = threading.Semaphore(0)
        self.states = {}           # thread object -> ThreadState
        self.spin_limit = spin_limit
        self.dead = []             # (thread name, repr(exc), traceback text)
        self.spins = []            # (thread name, virtual time)
        self.trace_hook = None     # installed (sys.settrace) in SimThreads *created* while set
        self.stopping = False
        self.jrng = random.Random((seed * 1000003) ^ 0x5bd1e995)
        self.events_run = 0
        self.current = None        # ThreadState holding the baton (None = driver)
        self.driver_errors = []
        self.max_total_events = 6 * 10 ** 6
        self.eager_wake = 0.0        # probability that a put() executed by the driver (receive context) runs the woken thread immediately
        self.eager_switches = 0
        self.held_locks = {}         # id(virtual lock) -> owning thread, for the locks currently held
        self.lock_waits = 0          # acquisitions of a virtual lock that found it taken
        self.drive_depth = 0         # > 0 while the driver waits for a lock inside a handler / application call
        self.reentrant_depth = 0     # > 0 while a frame is being handled re-entrantly inside a send call (no injected hold may start there)
        self.eager_depth = 0         # > 0 while a handler of the driver is suspended in favour of a woken thread

    # ---- clock ----------------------------------------------------------------------
    def time(self):
        st = self.current
        if st is not None and threading.current_thread() is st.thread:
            st.time_calls += 1
            if st.time_calls > self.spin_limit:
                self.spins.append((st.name, self.now))
                raise SpinDetected(st.name)
        self.now += 1e-6 * self.jrng.uniform(0.2, 2.0)
        return self.EPOCH + self.now

    # ---- events ---------------------------------------------------------------------
    def at(self, t, fn, *a):
        if t < self.now:
            t = self.now
        heapq.heappush(self.heap, (t, next(self.seq), fn, a))

    def after(self, d, fn, *a):
        self.at(self.now + d, fn, *a)

    def run(self, until=None, max_events=10 ** 8):
        n = 0
        while self.heap and n < max_events:
            t = self.heap[0][0]
            if until is not None and t > until:
                break
            t, _, fn, a = heapq.heappop(self.heap)
            if t > self.now:
                self.now = t
            fn(*a)
            n += 1
            if self.events_run + n > self.max_total_events:
                raise Runaway('more than %d simulation events in one case' % self.max_total_events)
        if until is not None and self.now < until and (not self.heap or self.heap[0][0] > until):
            self.now = until
        self.events_run += n
        return n

    def lock_held_by_other_thread(self):
        me = threading.current_thread()
        return any(o is not me for o in self.held_locks.values())

    def drive_until(self, pred, timeout=None, limit=30.0):
        """driver context blocks (on a lock): keep running events until pred() holds; False on time-out / nothing left to run"""
        t_end = self.now + (limit if timeout is None else min(timeout, limit))
        self.drive_depth += 1
        try:
            while not pred():
                if not self.heap or self.heap[0][0] > t_end:
                    return False
                self.run(max_events=1)
            return True
        finally:
            self.drive_depth -= 1

    # ---- baton ----------------------------------------------------------------------
    def _resume(self, st, token):
        """driver: hand the baton to st if the token is still valid; wait until it yields"""
        if st.token != token or st.finished:
            return
        if threading.current_thread() is not self.main:
            # a controlled thread ran an event (SimThread.join from inside); re-queue for the driver
            self.at(self.now, self._resume, st, token)
            return
        st.token += 1
        st.time_calls = 0
        prev = self.current
        self.current = st
        st.go.release()
        self.back.acquire()
        self.current = prev

    def block_current(self, until=None, waitobj=None, jitter=True):
        """controlled thread: park until resumed by time-out or wake-up"""
        me = threading.current_thread()
        st = self.states.get(me)
        if st is None:
            raise HarnessError('block_current from uncontrolled thread %r' % (me,))
        st.waiting_on = waitobj
        tok = st.token
        if waitobj is HOLD and until is not None:
            st.hold_acc += max(0.0, until - self.now)
        if until is not None:
            j = self.jrng.uniform(5e-6, 150e-6) if jitter else 0.0
            self.at(until + j, self._resume, st, tok)
        st.blocks += 1
        if st.time_calls > st.max_time_calls:
            st.max_time_calls = st.time_calls
        self.back.release()
        st.go.acquire()
        st.waiting_on = None
        if st.kill:
            raise SimThreadKilled()

    def wake(self, st):
        self.at(self.now + self.jrng.uniform(1e-6, 30e-6), self._resume, st, st.token)

    def spawn(self, fn, *a, name='task'):
        t = SimThread(target=fn, args=a, name=name)
        t.daemon = True
        t.start()
        return t

    # ---- tear-down ------------------------------------------------------------------
    def shutdown(self):
        """kill every parked controlled thread so that no OS thread outlives the case"""
        self.stopping = True
        for th, st in list(self.states.items()):
            if st.finished:
                continue
            st.kill = True
            self.current = st
            st.go.release()
            self.back.acquire()
            self.current = None
        for th in list(self.states):
            try:
                RealThread.join(th, 2.0)
            except RuntimeError:
                pass

    # ---- reporting ------------------------------------------------------------------
    def job_states(self):
        return [st for st in self.states.values() if st.is_job]


class SimThread(RealThread):
    """threading.Thread whose body only runs while it holds the baton"""

    def __init__(self, *a, **kw):
        super().__init__(*a, **kw)
        self._vsim = CUR
        self.st = ThreadState(self.name)
        self.st.thread = self
        self._vtrace = CUR.trace_hook if CUR is not None else None

    def start(self):
        sim = self._vsim
        if sim is None:
            return super().start()
        sim.states[self] = self.st
        super().start()
        sim.wake(self.st)        # created parked; first run is an event

    def run(self):
        sim = self._vsim
        if sim is None:
            return super().run()
        st = self.st
        st.go.acquire()
        st.started = True
        try:
            if st.kill:
                raise SimThreadKilled()
            if self._vtrace is not None:
                sys.settrace(self._vtrace)
            super().run()
        except SimThreadKilled:
            pass
        except BaseException as e:          # includes SpinDetected
            st.exc = e
            st.tb = traceback.format_exc()
            sim.dead.append((st.name, repr(e), st.tb))
        finally:
            sys.settrace(None)
            st.finished = True
            sim.back.release()

    def join(self, timeout=None):
        sim = self._vsim
        if sim is None:
            return super().join(timeout)
        if threading.current_thread() is sim.main:
            while not self.st.finished and sim.heap:
                sim.run(max_events=1)
            return
        # join from another controlled thread: wait in virtual time
        deadline = None if timeout is None else sim.now + timeout
        while not self.st.finished:
            if deadline is not None and sim.now >= deadline:
                return
            sim.block_current(until=sim.now + 0.001)


_ALL_QUEUES = weakref.WeakSet()     # queues that outlive a case (created at import / class level by the code under test) must not keep
                                    # waiters of a finished simulation


class VQueue:
    """queue.Queue look-alike whose blocking get waits in virtual time"""

    def __init__(self, maxsize=0):
        self.maxsize = maxsize
        self.items = collections.deque()
        self.waiters = []
        self.putters = []
        self.n_put = 0
        self.n_get_block = 0
        _ALL_QUEUES.add(self)

    # -- non blocking part --
    def put(self, item, block=True, timeout=None):
        if self.maxsize and self.maxsize > 0 and len(self.items) >= self.maxsize:
            # bounded queue that is full: the real put() blocks (or raises Full)
            if not block:
                raise Full
            if timeout is not None and timeout < 0:
                raise ValueError("'timeout' must be a non-negative number")
            sim = CUR
            st = sim.states.get(threading.current_thread()) if sim is not None else None
            if st is None:
                # the driver plays the receive thread: a put that cannot complete means notify() never returns
                raise Runaway('put() on a full bounded queue (maxsize %d) blocked the calling thread for ever' % self.maxsize)
            until = None if timeout is None else sim.now + timeout
            if len(st.waits) < 4096:
                st.waits.append((sim.now, timeout))
            st.blocked_in_put = True
            self.putters.append(st)
            try:
                while len(self.items) >= self.maxsize:
                    sim.block_current(until, self)
                    if until is not None and sim.now >= until and len(self.items) >= self.maxsize:
                        raise Full
            finally:
                st.blocked_in_put = False
                if st in self.putters:
                    self.putters.remove(st)
        self.items.append(item)
        self.n_put += 1
        if self.waiters:
            st = self.waiters.pop(0)
            sim = CUR
            if sim.eager_wake and sim.current is None and threading.current_thread() is sim.main and sim.jrng.random() < sim.eager_wake:
                # the operating system switches to the woken thread at once: it runs in the middle of the (receive) handler that woke it,
                # until it blocks again; then the handler continues
                sim.eager_switches += 1
                sim.eager_depth += 1
                try:
                    sim._resume(st, st.token)
                finally:
                    sim.eager_depth -= 1
            else:
                sim.wake(st)

    def put_nowait(self, item):
        self.put(item)

    def qsize(self):
        return len(self.items)

    def empty(self):
        return not self.items

    def full(self):
        return bool(self.maxsize and self.maxsize > 0 and len(self.items) >= self.maxsize)

    def task_done(self):
        pass

    def get_nowait(self):
        return self.get(False)

    def _took(self):
        if self.putters and CUR is not None:
            CUR.wake(self.putters[0])

    def get(self, block=True, timeout=None):
        r = self._get(block, timeout)
        self._took()
        return r

    def _get(self, block=True, timeout=None):
        if not block:
            if self.items:
                return self.items.popleft()
            raise Empty
        if timeout is not None and timeout < 0:
            raise ValueError("'timeout' must be a non-negative number")
        if self.items:
            return self.items.popleft()
        sim = CUR
        st = sim.states.get(threading.current_thread()) if sim is not None else None
        if st is None:
            raise HarnessError('blocking get on an empty VQueue from an uncontrolled thread')
        self.n_get_block += 1
        if len(st.waits) < 4096:
            st.waits.append((sim.now, timeout))
        if st.sleep_hook is not None:
            st.sleep_hook(sim.now, timeout, st.hold_acc)           # monitor: the thread is going to sleep on an empty queue for `timeout`
        st.hold_acc = 0.0
        until = None if timeout is None else sim.now + timeout
        self.waiters.append(st)
        try:
            sim.block_current(until, self)
        finally:
            if st in self.waiters:
                self.waiters.remove(st)
        if self.items:
            return self.items.popleft()
        raise Empty


class VEvent:
    """threading.Event look-alike; wait() blocks in virtual time"""

    def __init__(self):
        self._flag = False
        self.waiters = []

    def is_set(self):
        return self._flag

    isSet = is_set

    def set(self):
        self._flag = True
        ws, self.waiters = self.waiters, []
        for st in ws:
            CUR.wake(st)

    def clear(self):
        self._flag = False

    def wait(self, timeout=None):
        if self._flag:
            return True
        sim = CUR
        st = sim.states.get(threading.current_thread()) if sim is not None else None
        if st is None:
            raise HarnessError('Event.wait from an uncontrolled thread')
        if len(st.waits) < 4096:
            st.waits.append((sim.now, timeout))
        self.waiters.append(st)
        try:
            sim.block_current(None if timeout is None else sim.now + max(timeout, 0), self)
        finally:
            if st in self.waiters:
                self.waiters.remove(st)
        return self._flag


class VLock:
    """threading.Lock / RLock look-alike for the code under test (substituted per module, see fixup_modules): a controlled thread that
    finds it taken parks in virtual time; the driver (receive / application context) lets the simulation run until the holder releases it."""
    reentrant = False

    def __init__(self):
        self.owner = None
        self.count = 0
        self.waiters = []
        self.contended = 0

    def locked(self):
        return self.owner is not None

    def acquire(self, blocking=True, timeout=-1):
        sim = CUR
        me = threading.current_thread()
        if self.owner is not None and not (self.reentrant and self.owner is me):
            if not blocking:
                return False
            if sim is None:
                raise HarnessError('contended lock outside a simulation')
            self.contended += 1
            sim.lock_waits += 1
            st = sim.states.get(me)
            if st is not None and sim.current is st:
                t_end = None if timeout is None or timeout < 0 else sim.now + timeout
                while self.owner is not None:
                    if t_end is not None and sim.now >= t_end:
                        return False
                    self.waiters.append(st)
                    try:
                        sim.block_current(t_end, self)
                    finally:
                        if st in self.waiters:
                            self.waiters.remove(st)
            else:
                # driver context: the holder is a parked controlled thread; run the simulation until it lets go
                ok = sim.drive_until(lambda: self.owner is None, None if timeout is None or timeout < 0 else timeout)
                if not ok:
                    if timeout is not None and timeout >= 0:
                        return False
                    raise Runaway('deadlock: the receive/application context waited 30 s of virtual time for a lock held by %s'
                                  % getattr(self.owner, 'name', self.owner))
        self.owner = me
        self.count += 1
        if sim is not None:
            sim.held_locks[id(self)] = me
        return True

    def release(self):
        if self.owner is None:
            raise RuntimeError('release unlocked lock')
        self.count -= 1
        if self.count <= 0:
            self.count = 0
            self.owner = None
            if CUR is not None:
                CUR.held_locks.pop(id(self), None)
            if self.waiters and CUR is not None:
                CUR.wake(self.waiters.pop(0))

    __enter__ = acquire

    def __exit__(self, *a):
        self.release()


class VRLock(VLock):
    reentrant = True


class ThreadingProxy:
    """stands in for the `threading` module inside the modules of the code under test"""
    Lock = VLock
    RLock = VRLock

    def __getattr__(self, name):
        return getattr(threading, name)


_threading_proxy = ThreadingProxy()
_real_lock_factories = (threading.Lock, threading.RLock)


def fixup_modules(prefix='j1939'):
    """after the code under test has been imported: its modules see virtual locks (module global `threading` -> proxy; names bound with
    `from threading import Lock` fixed up by identity) -- only they do, the interpreter's own locks stay real"""
    for name, mod in list(sys.modules.items()):
        if not (name == prefix or name.startswith(prefix + '.')):
            continue
        d = getattr(mod, '__dict__', {})
        for k, v in list(d.items()):
            if v is threading:
                d[k] = _threading_proxy
            elif v is _real_lock_factories[0]:
                d[k] = VLock
            elif v is _real_lock_factories[1]:
                d[k] = VRLock


# ---- process-wide substitution -----------------------------------------------------------
def _vtime():
    return CUR.time() if CUR is not None else real_time()


def _vmono():
    return CUR.time() - Sim.EPOCH if CUR is not None else real_monotonic()


def _vperf():
    return CUR.time() - Sim.EPOCH if CUR is not None else real_perf_counter()


def _vtime_ns():
    return int(_vtime() * 1e9)


def _vsleep(d):
    sim = CUR
    if sim is None:
        return real_sleep(d)
    st = sim.states.get(threading.current_thread())
    if st is None:
        # driver "sleeping": let virtual time pass
        sim.run(until=sim.now + d)
        return
    if len(st.waits) < 4096:
        st.waits.append((sim.now, d))
    sim.block_current(sim.now + max(d, 0), SLEEP)


def _queue_factory(*a, **kw):
    return VQueue(*a, **kw) if CUR is not None else RealQueue(*a, **kw)


class _QueueMeta(type):
    def __instancecheck__(cls, inst):
        return isinstance(inst, (VQueue, RealQueue))


class QueueProxy(metaclass=_QueueMeta):
    """callable standing in for queue.Queue: virtual when a Sim is active"""

    def __new__(cls, *a, **kw):
        return _queue_factory(*a, **kw)


class _EventMeta(type):
    def __instancecheck__(cls, inst):
        return isinstance(inst, (VEvent, RealEvent))


class EventProxy(metaclass=_EventMeta):
    def __new__(cls, *a, **kw):
        return VEvent() if CUR is not None else RealEvent()


_installed = False


def install():
    """patch time / queue / threading process-wide.  Call before importing j1939."""
    global _installed
    if _installed:
        return
    _installed = True
    _time_mod.time = _vtime
    _time_mod.monotonic = _vmono
    _time_mod.perf_counter = _vperf
    _time_mod.sleep = _vsleep
    _time_mod.time_ns = _vtime_ns
    _queue_mod.Queue = QueueProxy
    threading.Thread = SimThread
    # threading.Event is NOT replaced: Thread.start() itself waits on one (real hand-shake with the OS thread)
    # modules already imported with "from x import y" style are fixed up by name
    for name, mod in list(sys.modules.items()):
        if not name.startswith('j1939'):
            continue
        d = getattr(mod, '__dict__', {})
        for k, v in list(d.items()):
            if v is real_time:
                d[k] = _vtime
            elif v is real_monotonic:
                d[k] = _vmono
            elif v is real_sleep:
                d[k] = _vsleep
            elif v is RealQueue:
                d[k] = QueueProxy
            elif v is RealThread:
                d[k] = SimThread


def new_sim(seed=0, spin_limit=20000):
    global CUR
    if CUR is not None:
        end_sim()
    CUR = Sim(seed, spin_limit)
    for q in list(_ALL_QUEUES):
        if q.waiters or q.putters:
            del q.waiters[:]
            del q.putters[:]
    return CUR


def end_sim():
    global CUR
    if CUR is not None:
        try:
            CUR.shutdown()
        finally:
            CUR = None
