"""ref.peers -- scripted, standard-conforming transport peers (independent of the repository).

They live on the simulated bus as plain objects (vt.bus.ScriptNode) and schedule frames in virtual time.  Every free choice
the standard leaves to an implementation is a seeded parameter: RTS window limit, packets granted per CTS, hold CTS before
granting and between windows, reply latency, data packet pacing, BAM spacing.  The judging is done by ref.sniffer on the bus
log; the peers only have to behave legally (and remember what they received / sent)."""
from vt.bus import ScriptNode
from . import codec as C


class Responder(ScriptNode):
    """conforming RTS/CTS responder (and BAM receiver) at address `addr`"""

    def __init__(self, bus, sim, rng, addr, fd, grant='random', holds=(0, 3), reply=(0.0, 0.15), hold_between=0.3, grants=None, own_max=255,
                 late_after_hold=None):
        super().__init__(bus, 'REF')
        self.sim, self.rng, self.addr, self.fd = sim, rng, addr, fd
        self.grant_policy = grant          # 'random' | 'max' | 'one' | 'list'
        self.grants = list(grants or [])   # explicit grant sizes for policy 'list'
        self.holds = holds
        self.reply = reply
        self.hold_between = hold_between
        self.own_max = own_max
        self.late_after_hold = late_after_hold      # (lo, hi): the grant after the last hold comes this late (> Th: the originator gives up)
        self.rx = {}
        self.done = []                     # (sa, pgn, payload)
        self.cts_sent = []
        self.holds_sent = 0

    def _tx(self, pf, da, data, prio=7):
        self.send(C.make_id(prio, 0, pf, da, self.addr), data, fd=self.fd)

    def _delay(self):
        return self.rng.uniform(*self.reply)

    def _later(self, t, fn, *a):
        # a reply latency of exactly 0 is executed at once, i.e. inside the frame handler (with a zero-latency bus: inside the
        # sender's send call)
        if t <= 0:
            fn(*a)
        else:
            self.sim.after(t, fn, *a)

    def on_frame(self, fr):
        if not fr.ext:
            return
        f = C.split_id(fr.can_id)
        d = fr.data
        sa = f['sa']
        cm_pf, dt_pf = (C.PF_FD_TP_CM, C.PF_FD_TP_DT) if self.fd else (C.PF_TP_CM, C.PF_TP_DT)
        if f['pf'] == cm_pf:
            m = C.parse_fdcm(d) if self.fd else C.parse_tpcm(d)
            ses = m.get('session') if self.fd else None
            if m['type'] == 'RTS' and f['ps'] == self.addr:
                n = m['segments'] if self.fd else m['packets']
                st = dict(sa=sa, ses=ses, size=m['size'], n=n, limit=max(1, min(m['limit'], self.own_max)), pgn=m['pgn'], chunks={}, next=1, granted=0, mode='cmdt')
                self.rx[(sa, ses)] = st
                self._plan_grant(st, first=True)
            elif m['type'] == 'BAM' and f['ps'] == 255:
                n = m['segments'] if self.fd else m['packets']
                self.rx[(sa, ses, 'bam')] = dict(sa=sa, ses=ses, size=m['size'], n=n, pgn=m['pgn'], chunks={}, mode='bam')
            elif m['type'] == 'EOMS' and self.fd:
                st = self.rx.get((sa, ses)) if f['ps'] == self.addr else self.rx.get((sa, ses, 'bam'))
                if st is not None:
                    self._finish(st)
                    if st['mode'] == 'cmdt':
                        self._later(self._delay(), self._tx, cm_pf, sa, C.fdcm_eoma(ses, st['size'], st['pgn'], st['n']))
            elif m['type'] == 'ABORT' and f['ps'] == self.addr:
                self.rx.pop((sa, ses), None)
        elif f['pf'] == dt_pf and len(d) >= (5 if self.fd else 8):
            if self.fd:
                m = C.parse_fddt(d)
                ses, seq, data = m['session'], m['seg'], m['data']
                unit = 60
            else:
                ses, seq, data = None, d[0], d[1:]
                unit = 7
            st = self.rx.get((sa, ses)) if f['ps'] == self.addr else (self.rx.get((sa, ses, 'bam')) if f['ps'] == 255 else None)
            if st is None:
                return
            st['chunks'][seq] = bytes(data[:unit])
            if st['mode'] == 'bam':
                if not self.fd and seq == st['n']:
                    self._finish(st)
                return
            st['next'] = seq + 1
            st['granted'] -= 1
            if len(st['chunks']) >= st['n'] and seq == st['n']:
                if not self.fd:
                    self._finish(st)
                    self._later(self._delay(), self._tx, cm_pf, sa, C.tpcm_eom(st['size'], st['n'], st['pgn']))
            elif st['granted'] <= 0:
                self._plan_grant(st, first=False)

    def _finish(self, st):
        key = (st['sa'], st['ses']) if st['mode'] == 'cmdt' else (st['sa'], st['ses'], 'bam')
        self.rx.pop(key, None)
        data = b''.join(st['chunks'].get(i, b'') for i in range(1, st['n'] + 1))[:st['size']]
        complete = all(i in st['chunks'] for i in range(1, st['n'] + 1))
        self.done.append(dict(sa=st['sa'], pgn=st['pgn'], payload=data, complete=complete, mode=st['mode'], t=self.sim.now))

    def _plan_grant(self, st, first):
        t = self._delay()
        nh = self.rng.randint(*self.holds) if (first or self.rng.random() < self.hold_between) else 0
        for i in range(nh):
            self._later(t, self._cts, st, 0)
            if self.late_after_hold is not None and i == nh - 1:
                t += self.rng.uniform(*self.late_after_hold)
            else:
                t += self.rng.uniform(0.05, 0.47)
        self._later(t, self._grant, st)

    def _grant(self, st):
        if self.rx.get((st['sa'], st['ses'])) is not st:
            return
        rem = st['n'] - st['next'] + 1
        top = max(1, min(st['limit'], rem))
        if self.grant_policy == 'max':
            w = top
        elif self.grant_policy == 'one':
            w = 1
        elif self.grant_policy == 'list' and self.grants:
            w = max(1, min(self.grants.pop(0), top))
        else:
            w = self.rng.randint(1, top)
        st['granted'] = w
        self._cts(st, w)

    def _cts(self, st, w):
        if self.rx.get((st['sa'], st['ses'])) is not st:
            return
        if w == 0:
            self.holds_sent += 1
        self.cts_sent.append((self.sim.now, w, st['next']))
        if self.fd:
            self._tx(C.PF_FD_TP_CM, st['sa'], C.fdcm_cts(st['ses'], st['next'], w, st['pgn']))
        else:
            nxt = st['next']
            if w == 0 and self.rng.random() < 0.5:
                nxt = 0xFF          # SAE J1939-21: in a hold (0 packets) the next-packet byte is 0xFF; some implementations repeat the real number
            self._tx(C.PF_TP_CM, st['sa'], C.tpcm_cts(w, nxt, st['pgn']))


class Originator(ScriptNode):
    """conforming RTS/CTS originator and BAM sender at address `addr`"""

    def __init__(self, bus, sim, rng, addr, fd, pacing=(0.0, 0.19), prio=6):
        super().__init__(bus, 'REF')
        self.sim, self.rng, self.addr, self.fd = sim, rng, addr, fd
        self.pacing = pacing
        self.prio = prio
        self.out = {}
        self.finished = []        # dict(da, pgn, ok, cts=[...])
        self.cts_seen = []

    def _tx(self, pf, da, data, prio=7):
        self.send(C.make_id(prio, 0, pf, da, self.addr), data, fd=self.fd)

    def start(self, da, pgn, payload, limit, session=0):
        unit = 60 if self.fd else 7
        n = (len(payload) + unit - 1) // unit
        st = dict(da=da, pgn=pgn, pay=bytes(payload), n=n, limit=limit, ses=session, sent=0, cts=[], done=False, aborted=False, busy_until=0.0)
        self.out[(da, session if self.fd else None)] = st
        if self.fd:
            self._tx(C.PF_FD_TP_CM, da, C.fdcm_rts(session, len(payload), limit, pgn), prio=self.prio)
        else:
            self._tx(C.PF_TP_CM, da, C.tpcm_rts(len(payload), limit, pgn), prio=self.prio)
        return st

    def bam(self, pgn, payload, spacing, session=0):
        unit = 60 if self.fd else 7
        n = (len(payload) + unit - 1) // unit
        if self.fd:
            self.send(C.make_id(self.prio, 0, C.PF_FD_TP_CM, 255, self.addr), C.fdcm_bam(session, len(payload), pgn), fd=True)
        else:
            self.send(C.make_id(self.prio, 0, C.PF_TP_CM, 255, self.addr), C.tpcm_bam(len(payload), pgn))
        t = 0.0
        for k in range(n):
            t += self.rng.uniform(*spacing)
            chunk = payload[k * unit:(k + 1) * unit]
            if self.fd:
                self.sim.after(t, self.send, C.make_id(7, 0, C.PF_FD_TP_DT, 255, self.addr), C.fd_dt(session, k + 1, chunk), True)
            else:
                self.sim.after(t, self.send, C.make_id(7, 0, C.PF_TP_DT, 255, self.addr), C.tp_dt(k + 1, chunk))
        if self.fd:
            t += self.rng.uniform(*spacing)
            self.sim.after(t, self.send, C.make_id(7, 0, C.PF_FD_TP_CM, 255, self.addr), C.fdcm_eoms(session, len(payload), pgn), True)
        return t

    def on_frame(self, fr):
        if not fr.ext:
            return
        f = C.split_id(fr.can_id)
        if f['ps'] != self.addr:
            return
        d = fr.data
        cm_pf = C.PF_FD_TP_CM if self.fd else C.PF_TP_CM
        if f['pf'] != cm_pf:
            return
        m = C.parse_fdcm(d) if self.fd else C.parse_tpcm(d)
        ses = m.get('session') if self.fd else None
        st = self.out.get((f['sa'], ses))
        if st is None:
            return
        unit = 60 if self.fd else 7
        if m['type'] == 'CTS':
            st['cts'].append((self.sim.now, m['n'], m['next']))
            self.cts_seen.append((m['n'], m['next'], st['limit'], st['n']))
            if m['n'] == 0:
                return
            t = max(0.0, st['busy_until'] - self.sim.now)
            first = True
            for i in range(m['n']):
                k = m['next'] - 1 + i
                if k < 0 or k >= st['n']:
                    break
                t += self.rng.uniform(*self.pacing) if not first else self.rng.uniform(0.0, min(0.15, self.pacing[1]))
                first = False
                chunk = st['pay'][k * unit:(k + 1) * unit]
                if self.fd:
                    self.sim.after(t, self._tx, C.PF_FD_TP_DT, st['da'], C.fd_dt(st['ses'], k + 1, chunk))
                else:
                    self.sim.after(t, self._tx, C.PF_TP_DT, st['da'], C.tp_dt(k + 1, chunk))
                st['sent'] = max(st['sent'], k + 1)
            st['busy_until'] = self.sim.now + t
            if self.fd and st['sent'] >= st['n']:
                self.sim.after(t + self.rng.uniform(0.0, 0.05), self._tx, C.PF_FD_TP_CM, st['da'], C.fdcm_eoms(st['ses'], len(st['pay']), st['pgn']))
        elif m['type'] in ('EOM', 'EOMA'):
            st['done'] = True
            st['t_done'] = self.sim.now
            st['ack'] = dict(m)
            self.out.pop((f['sa'], ses), None)
            self.finished.append(st)
        elif m['type'] == 'ABORT':
            st['aborted'] = True
            st['abort'] = dict(m)
            self.out.pop((f['sa'], ses), None)
            self.finished.append(st)
