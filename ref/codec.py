"""ref.codec -- SAE J1939 frame layouts written from the standard's tables.

Imports nothing from the repository.  Used as the independent side of every wire-level
oracle (DESIGN.md section 3).
"""

FD_LENGTHS = (0, 1, 2, 3, 4, 5, 6, 7, 8, 12, 16, 20, 24, 32, 48, 64)

PF_TP_CM = 0xEC
PF_TP_DT = 0xEB
PF_REQUEST = 0xEA
PF_ADDRESS_CLAIM = 0xEE
PF_ACK = 0xE8
PF_FD_TP_CM = 0x4D
PF_FD_TP_DT = 0x4E
PF_MULTI_PG = 0x25
PF_DM14 = 0xD9
PF_DM15 = 0xD8
PF_DM16 = 0xD7
PGN_DM1 = 0xFECA
PF_DM22 = 0xC3


# ---------------------------------------------------------------------------------------
# 29-bit identifier (J1939-21 5.2)
# ---------------------------------------------------------------------------------------
def split_id(can_id):
    prio = (can_id >> 26) & 0x7
    edp = (can_id >> 25) & 0x1
    dp = (can_id >> 24) & 0x1
    pf = (can_id >> 16) & 0xFF
    ps = (can_id >> 8) & 0xFF
    sa = can_id & 0xFF
    pdu1 = pf < 240
    pgn = (edp << 17) | (dp << 16) | (pf << 8) | (0 if pdu1 else ps)
    return dict(prio=prio, edp=edp, dp=dp, pf=pf, ps=ps, sa=sa, pdu1=pdu1, da=(ps if pdu1 else 255), pgn=pgn)


def make_id(prio, dp, pf, ps, sa, edp=0):
    return ((prio & 7) << 26) | ((edp & 1) << 25) | ((dp & 1) << 24) | ((pf & 0xFF) << 16) | ((ps & 0xFF) << 8) | (sa & 0xFF)


def le(v, n):
    return bytes((v >> (8 * i)) & 0xFF for i in range(n))


def un_le(b):
    v = 0
    for i, x in enumerate(b):
        v |= x << (8 * i)
    return v


# ---------------------------------------------------------------------------------------
# J1939-21 transport protocol (5.10)
# ---------------------------------------------------------------------------------------
TP_RTS, TP_CTS, TP_EOM, TP_BAM, TP_ABORT = 16, 17, 19, 32, 255


def tp_packets(size):
    return (size + 6) // 7


def tpcm_rts(size, limit, pgn, packets=None):
    return bytes([TP_RTS]) + le(size, 2) + bytes([tp_packets(size) if packets is None else packets, limit]) + le(pgn, 3)


def tpcm_cts(n, nxt, pgn):
    return bytes([TP_CTS, n, nxt, 0xFF, 0xFF]) + le(pgn, 3)


def tpcm_eom(size, packets, pgn):
    return bytes([TP_EOM]) + le(size, 2) + bytes([packets, 0xFF]) + le(pgn, 3)


def tpcm_bam(size, pgn, packets=None):
    return bytes([TP_BAM]) + le(size, 2) + bytes([tp_packets(size) if packets is None else packets, 0xFF]) + le(pgn, 3)


def tpcm_abort(reason, pgn):
    return bytes([TP_ABORT, reason, 0xFF, 0xFF, 0xFF]) + le(pgn, 3)


def tp_dt(seq, chunk):
    return bytes([seq]) + bytes(chunk) + b'\xFF' * (7 - len(chunk))


def parse_tpcm(d):
    """-> dict(type=..., fields...) ; type None if not decodable"""
    if len(d) != 8:
        return dict(type=None, why='length %d' % len(d))
    c = d[0]
    pgn = un_le(d[5:8])
    if c == TP_RTS:
        return dict(type='RTS', size=un_le(d[1:3]), packets=d[3], limit=d[4], pgn=pgn)
    if c == TP_CTS:
        return dict(type='CTS', n=d[1], next=d[2], resv=d[3:5], pgn=pgn)
    if c == TP_EOM:
        return dict(type='EOM', size=un_le(d[1:3]), packets=d[3], resv=d[4:5], pgn=pgn)
    if c == TP_BAM:
        return dict(type='BAM', size=un_le(d[1:3]), packets=d[3], resv=d[4:5], pgn=pgn)
    if c == TP_ABORT:
        return dict(type='ABORT', reason=d[1], resv=d[2:5], pgn=pgn)
    return dict(type=None, why='control byte %d' % c)


# ---------------------------------------------------------------------------------------
# J1939-22 FD transport (FD.TP.CM / FD.TP.DT)
# ---------------------------------------------------------------------------------------
FD_RTS, FD_CTS, FD_EOMS, FD_EOMA, FD_BAM, FD_ABORT = 0, 1, 2, 3, 4, 15


def fd_segments(size):
    return (size + 59) // 60


def fdcm(ctrl, session, a, b, b7, b8, pgn):
    return bytes([(ctrl & 0xF) | ((session & 0xF) << 4)]) + le(a, 3) + le(b, 3) + bytes([b7 & 0xFF, b8 & 0xFF]) + le(pgn, 3)


def fdcm_rts(session, size, limit, pgn, segments=None):
    return fdcm(FD_RTS, session, size, fd_segments(size) if segments is None else segments, limit, 0, pgn)


def fdcm_cts(session, nxt, n, pgn):
    return fdcm(FD_CTS, session, 0xFFFFFF, nxt, n, 0, pgn)


def fdcm_eoms(session, size, pgn, segments=None):
    return fdcm(FD_EOMS, session, size, fd_segments(size) if segments is None else segments, 0, 0, pgn)


def fdcm_eoma(session, size, pgn, segments=None):
    return fdcm(FD_EOMA, session, size, fd_segments(size) if segments is None else segments, 0xFF, 0xFF, pgn)


def fdcm_bam(session, size, pgn, segments=None):
    return fdcm(FD_BAM, session, size, fd_segments(size) if segments is None else segments, 0xFF, 0, pgn)


def fdcm_abort(session, reason, pgn):
    return fdcm(FD_ABORT, session, 0xFFFFFF, 0xFFFFFF, 0xFF, reason, pgn)


def fd_pad_len(n):
    for x in FD_LENGTHS:
        if x >= n:
            return x
    return None


def fd_dt(session, seg, chunk, dtfi=0):
    d = bytes([(dtfi & 0xF) | ((session & 0xF) << 4)]) + le(seg, 3) + bytes(chunk)
    return d + b'\xFF' * (fd_pad_len(len(d)) - len(d))


def parse_fdcm(d):
    if len(d) < 12:
        return dict(type=None, why='length %d' % len(d))
    ctrl = d[0] & 0xF
    ses = d[0] >> 4
    a = un_le(d[1:4])
    b = un_le(d[4:7])
    pgn = un_le(d[9:12])
    base = dict(session=ses, pgn=pgn, b7=d[7], b8=d[8], length=len(d))
    if ctrl == FD_RTS:
        base.update(type='RTS', size=a, segments=b, limit=d[7], adt=d[8])
    elif ctrl == FD_CTS:
        base.update(type='CTS', resv=a, next=b, n=d[7], request_code=d[8])
    elif ctrl == FD_EOMS:
        base.update(type='EOMS', size=a, segments=b, ad_size=d[7], adt=d[8])
    elif ctrl == FD_EOMA:
        base.update(type='EOMA', size=a, segments=b)
    elif ctrl == FD_BAM:
        base.update(type='BAM', size=a, segments=b, adt=d[8])
    elif ctrl == FD_ABORT:
        base.update(type='ABORT', reason=d[8])
    else:
        base.update(type=None, why='control %d' % ctrl)
    return base


def parse_fddt(d):
    if len(d) < 5:
        return dict(type=None, why='length %d' % len(d))
    return dict(type='DT', dtfi=d[0] & 0xF, session=d[0] >> 4, seg=un_le(d[1:4]), data=bytes(d[4:]), length=len(d))


# ---------------------------------------------------------------------------------------
# J1939-22 Multi-PG (C-PG header: TOS 3 bits | TF 3 bits | CPGN 18 bits | length 8 bits)
# ---------------------------------------------------------------------------------------
def mpg_cpg(cpgn, payload, tos=2, tf=0):
    return bytes([((tos & 7) << 5) | ((tf & 7) << 2) | ((cpgn >> 16) & 3), (cpgn >> 8) & 0xFF, cpgn & 0xFF, len(payload)]) + bytes(payload)


def mpg_frame(cpgs):
    """cpgs: [(cpgn, payload)] -> padded data field (padding = TOS 0 header, lenient tail)"""
    d = b''.join(mpg_cpg(c, p) for c, p in cpgs)
    L = fd_pad_len(len(d))
    return d + b'\x00' * (L - len(d))


def parse_mpg(d):
    """-> (groups [(tos, tf, cpgn, payload)], problems [str]).

    A decoder walks C-PGs until the data field ends or a header with TOS = 0 (padding
    service) starts; everything after a TOS 0 header is skipped.  Fewer than 4 bytes
    left cannot hold a header and are padding."""
    groups = []
    problems = []
    i = 0
    n = len(d)
    while i < n:
        if n - i < 4:
            if any(x != 0 for x in d[i:i + 1]) and ((d[i] >> 5) & 7) != 0:
                problems.append('trailing %d byte(s) %s look like the start of a C-PG (TOS %d) but cannot hold a header'
                                % (n - i, bytes(d[i:]).hex(), (d[i] >> 5) & 7))
            break
        tos = (d[i] >> 5) & 7
        if tos == 0:
            break
        tf = (d[i] >> 2) & 7
        cpgn = ((d[i] & 3) << 16) | (d[i + 1] << 8) | d[i + 2]
        ln = d[i + 3]
        if i + 4 + ln > n:
            problems.append('C-PG at offset %d announces %d bytes but only %d remain' % (i, ln, n - i - 4))
            groups.append((tos, tf, cpgn, bytes(d[i + 4:])))
            break
        groups.append((tos, tf, cpgn, bytes(d[i + 4:i + 4 + ln])))
        i += 4 + ln
    return groups, problems


# ---------------------------------------------------------------------------------------
# NAME (J1939-81 4.1.1) -- bit positions
# ---------------------------------------------------------------------------------------
NAME_FIELDS = (           # name, shift, width
    ('identity_number', 0, 21),
    ('manufacturer_code', 21, 11),
    ('ecu_instance', 32, 3),
    ('function_instance', 35, 5),
    ('function', 40, 8),
    ('reserved_bit', 48, 1),
    ('vehicle_system', 49, 7),
    ('vehicle_system_instance', 56, 4),
    ('industry_group', 60, 3),
    ('arbitrary_address_capable', 63, 1),
)


def name_fields(value):
    return {n: (value >> s) & ((1 << w) - 1) for n, s, w in NAME_FIELDS}


def name_value(**f):
    v = 0
    for n, s, w in NAME_FIELDS:
        v |= (int(f.get(n, 0)) & ((1 << w) - 1)) << s
    return v


def name_bytes(value):
    return le(value, 8)


# ---------------------------------------------------------------------------------------
# request / address claim
# ---------------------------------------------------------------------------------------
def request_payload(pgn):
    return le(pgn, 3)


def is_address_claim(can_id):
    f = split_id(can_id)
    return f['pf'] == PF_ADDRESS_CLAIM


# ---------------------------------------------------------------------------------------
# J1939-73: DTC, lamps, DM1, DM22
# ---------------------------------------------------------------------------------------
def dtc_bytes(spn, fmi, oc, cm=0):
    """SPN low 16 bits in bytes 1-2, SPN bits 18..16 in the three MSBs of byte 3, FMI in its
    five LSBs, CM in bit 8 of byte 4, OC in its seven LSBs"""
    return bytes([spn & 0xFF, (spn >> 8) & 0xFF, (((spn >> 16) & 0x7) << 5) | (fmi & 0x1F), ((cm & 1) << 7) | (oc & 0x7F)])


def parse_dtc(b):
    return dict(spn=b[0] | (b[1] << 8) | ((b[2] >> 5) << 16), fmi=b[2] & 0x1F, oc=b[3] & 0x7F, cm=b[3] >> 7)


# lamp status / flash two-bit codes, per lamp, in the library's five-state vocabulary
LAMP_OFF, LAMP_ON, LAMP_SLOW, LAMP_FAST, LAMP_NA = 0, 1, 2, 3, 4
_LAMP_CODE = {LAMP_OFF: (0, 3), LAMP_ON: (1, 3), LAMP_SLOW: (1, 0), LAMP_FAST: (1, 1), LAMP_NA: (3, 3)}
# byte 1: bits 8-7 MIL, 6-5 RSL, 4-3 AWL, 2-1 PL ; byte 2 the flash codes likewise
_LAMP_SHIFT = {'pl': 0, 'awl': 2, 'rsl': 4, 'mil': 6}


def lamp_bytes(lamps):
    b0 = b1 = 0
    for k, sh in _LAMP_SHIFT.items():
        st, fl = _LAMP_CODE[lamps.get(k, LAMP_OFF)]
        b0 |= st << sh
        b1 |= fl << sh
    return bytes([b0, b1])


def dm1_payload(lamps, dtcs):
    out = lamp_bytes(lamps)
    for d in dtcs:
        out += dtc_bytes(d['spn'], d['fmi'], d.get('oc', 0))
    return out


def dm22_payload(control, spn, fmi):
    return bytes([control, 0xFF, 0xFF, 0xFF, 0xFF, spn & 0xFF, (spn >> 8) & 0xFF, (((spn >> 16) & 7) << 5) | (fmi & 0x1F)])


# ---------------------------------------------------------------------------------------
# DM14 / DM15 / DM16 (J1939-73 5.7.14-16)
# ---------------------------------------------------------------------------------------
DM14_READ, DM14_WRITE, DM14_COMPLETED, DM14_FAILED = 1, 2, 4, 5
DM15_PROCEED, DM15_BUSY, DM15_COMPLETED, DM15_FAILED = 0, 1, 4, 5


def dm14(count, pointer_type, command, pointer, key):
    return bytes([count & 0xFF, ((pointer_type & 1) << 4) | ((command & 7) << 1) | 1]) + le(pointer, 4) + le(key, 2)


def parse_dm14(d):
    return dict(count=d[0], pointer_type=(d[1] >> 4) & 1, command=(d[1] >> 1) & 7, pointer=un_le(d[2:6]), key=un_le(d[6:8]))


def parse_dm15(d):
    return dict(count=d[0], status=(d[1] >> 1) & 7, error=un_le(d[2:5]), edcp=d[5], seed=un_le(d[6:8]))


def dm15(count, status, error=0xFFFFFF, edcp=0xFF, seed=0xFFFF, pointer_type=0):
    return bytes([count, ((pointer_type & 1) << 4) | ((status & 7) << 1) | 1]) + le(error, 3) + bytes([edcp]) + le(seed, 2)


def dm16(data):
    n = len(data)
    return bytes([n if n <= 7 else 0xFF]) + bytes(data)
