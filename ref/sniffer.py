"""ref.sniffer -- reconstructs transport sessions from the bus log, independently of the
repository, and judges flow control / format conformance of the frames it sees.

Input: vt.bus.Frame objects in bus order.  Output: Session objects + problems.
A problem is (kind, by, msg): 'by' is the name of the node that sent the offending frame,
so a check can restrict the verdict to frames of the stack under test.
"""
from . import codec as C


class Session:
    def __init__(self, layer, mode, sa, da, ses, pgn, size, packets, limit, t, idx, src):
        self.layer = layer
        self.mode = mode            # 'cmdt' | 'bam'
        self.sa = sa
        self.da = da
        self.ses = ses              # FD session number (None on -21)
        self.pgn = pgn
        self.size = size
        self.packets = packets
        self.limit = limit
        self.t_open = t
        self.idx_open = idx
        self.src = src              # node name of the originator
        self.resp = None            # node name of the responder (first CTS/EOM sender)
        self.status = 'open'        # open | complete | aborted | superseded
        self.cts = []               # (t, n, next, by)
        self.dts = []               # (t, seq, data bytes)
        self.chunks = {}            # seq -> data
        self.eom = None             # -21: EndOfMsgACK ; FD: EOM status
        self.eoma = None            # FD EOM ack
        self.abort = None           # dict(t, by, by_addr, reason)
        self.cleared_next = None
        self.cleared_left = 0
        self.holds = 0
        self.t_last = t
        self.t_close = None
        self.frames = [idx]

    @property
    def unit(self):
        return 60 if self.layer == 'j1939-22' else 7

    def payload(self):
        """reassembled bytes if every packet 1..packets was seen, else None"""
        out = b''
        for s in range(1, self.packets + 1):
            c = self.chunks.get(s)
            if c is None:
                return None
            out += c[:self.unit]
        return out[:self.size]

    def key(self):
        return (self.sa, self.da, self.ses)

    def brief(self):
        return '%s %s %02X->%02X ses=%s pgn=%05X size=%d pk=%d %s' % (self.layer, self.mode, self.sa, self.da, self.ses,
                                                                     self.pgn, self.size, self.packets, self.status)


class Sniffer:
    def __init__(self, layer):
        self.layer = layer
        self.fd = layer == 'j1939-22'
        self.live = {}          # key -> Session
        self.sessions = []
        self.problems = []      # (kind, by, msg)
        self.single = []        # single-frame application messages (t, src, fields, data)
        self.mpg = []           # (t, src, id fields, groups, problems)
        self.n_frames = 0

    def problem(self, kind, by, msg):
        self.problems.append((kind, by, msg))

    def feed_all(self, frames, include_lost=True):
        for fr in frames:
            if fr.silenced:
                continue
            if fr.lost and not include_lost:
                continue
            self.feed(fr)
        return self

    # ---------------------------------------------------------------------------------
    def feed(self, fr):
        self.n_frames += 1
        if not fr.ext:
            if self.fd:
                g, pr = C.parse_mpg(fr.data)
                self.mpg.append((fr.t, fr.src, dict(fbff=True, sa=fr.can_id & 0xFF, da=255, prio=0), g, pr, fr))
            return
        f = C.split_id(fr.can_id)
        if self.fd:
            if f['pf'] == C.PF_FD_TP_CM:
                return self._fd_cm(fr, f)
            if f['pf'] == C.PF_FD_TP_DT:
                return self._fd_dt(fr, f)
            if f['pf'] == C.PF_MULTI_PG:
                g, pr = C.parse_mpg(fr.data)
                if len(fr.data) not in C.FD_LENGTHS:
                    pr.append('illegal CAN FD length %d' % len(fr.data))
                self.mpg.append((fr.t, fr.src, dict(fbff=False, sa=f['sa'], da=f['ps'], prio=f['prio']), g, pr, fr))
                return
        else:
            if f['pf'] == C.PF_TP_CM:
                return self._cm21(fr, f)
            if f['pf'] == C.PF_TP_DT:
                return self._dt21(fr, f)
        self.single.append((fr.t, fr.src, f, fr.data, fr))

    # ---------------------------------------------------------------------------------
    # J1939-21
    # ---------------------------------------------------------------------------------
    def _open(self, s):
        old = self.live.get(s.key())
        if old is not None:
            old.status = 'superseded'
            old.t_close = s.t_open
        self.live[s.key()] = s
        self.sessions.append(s)

    def _close(self, s, status, t):
        s.status = status
        s.t_close = t
        if self.live.get(s.key()) is s:
            del self.live[s.key()]

    def _cm21(self, fr, f):
        by = fr.src
        d = fr.data
        m = C.parse_tpcm(d)
        sa, da = f['sa'], f['ps']
        if m['type'] is None:
            self.problem('undecodable_tpcm', by, 'TP.CM %s: %s' % (d.hex(), m['why']))
            return
        t = m['type']
        if t == 'RTS':
            if m['packets'] != C.tp_packets(m['size']):
                self.problem('rts_packet_count', by, 'RTS size %d announces %d packets (expected %d)' % (m['size'], m['packets'], C.tp_packets(m['size'])))
            if m['size'] < 9 or m['size'] > 1785:
                self.problem('rts_size', by, 'RTS size %d outside 9..1785' % m['size'])
            if da == 255:
                self.problem('rts_to_global', by, 'RTS sent to the global address')
            s = Session(self.layer, 'cmdt', sa, da, None, m['pgn'], m['size'], m['packets'], m['limit'], fr.t, fr.idx, by)
            self._open(s)
        elif t == 'BAM':
            if m['packets'] != C.tp_packets(m['size']):
                self.problem('bam_packet_count', by, 'BAM size %d announces %d packets' % (m['size'], m['packets']))
            if m['resv'] != b'\xFF':
                self.problem('reserved_byte', by, 'BAM byte 5 is %s, not FF' % m['resv'].hex())
            if da != 255:
                self.problem('bam_not_global', by, 'BAM sent to %02X' % da)
            s = Session(self.layer, 'bam', sa, 255, None, m['pgn'], m['size'], m['packets'], None, fr.t, fr.idx, by)
            s.cleared_next = 1
            s.cleared_left = m['packets']
            self._open(s)
        elif t == 'CTS':
            s = self.live.get((da, sa, None))           # CTS flows responder -> originator
            if m['resv'] != b'\xFF\xFF':
                self.problem('reserved_byte', by, 'CTS bytes 4-5 are %s, not FFFF' % m['resv'].hex())
            if s is None or s.mode != 'cmdt':
                self.problem('cts_without_session', by, 'CTS %02X->%02X without an open RTS session' % (sa, da))
                return
            s.frames.append(fr.idx)
            s.resp = by
            s.t_last = fr.t
            if m['pgn'] != s.pgn:
                self.problem('cts_pgn', by, 'CTS carries pgn %05X, session has %05X' % (m['pgn'], s.pgn))
            s.cts.append((fr.t, m['n'], m['next'], by))
            if m['n'] == 0:
                s.holds += 1
                s.cleared_left = 0
                return
            nxt_expected = len(s.chunks) + 1 if s.cleared_next is None else s.cleared_next
            remaining = s.packets - (m['next'] - 1)
            if m['n'] > s.limit:
                self.problem('over_grant_rts_limit', by, 'CTS grants %d > RTS limit %d' % (m['n'], s.limit))
            if m['n'] > remaining:
                self.problem('over_grant_remaining', by, 'CTS grants %d from packet %d but only %d remain of %d' % (m['n'], m['next'], remaining, s.packets))
            if m['next'] < 1 or m['next'] > s.packets:
                self.problem('cts_next_range', by, 'CTS next packet %d outside 1..%d' % (m['next'], s.packets))
            s.cleared_next = m['next']
            s.cleared_left = m['n']
        elif t == 'EOM':
            s = self.live.get((da, sa, None))
            if m['resv'] != b'\xFF':
                self.problem('reserved_byte', by, 'EndOfMsgACK byte 5 is %s, not FF' % m['resv'].hex())
            if s is None or s.mode != 'cmdt':
                self.problem('eom_without_session', by, 'EndOfMsgACK %02X->%02X without an open session' % (sa, da))
                return
            s.frames.append(fr.idx)
            s.resp = by
            s.eom = dict(t=fr.t, size=m['size'], packets=m['packets'], pgn=m['pgn'], by=by)
            if (m['size'], m['packets'], m['pgn']) != (s.size, s.packets, s.pgn):
                self.problem('eom_fields', by, 'EndOfMsgACK says size %d packets %d pgn %05X; RTS said %d %d %05X'
                             % (m['size'], m['packets'], m['pgn'], s.size, s.packets, s.pgn))
            if s.payload() is None:
                self.problem('eom_premature', by, 'EndOfMsgACK before all %d packets were on the bus (%d seen)' % (s.packets, len(s.chunks)))
            self._close(s, 'complete', fr.t)
        elif t == 'ABORT':
            if m['resv'] != b'\xFF\xFF\xFF':
                self.problem('reserved_byte', by, 'Abort bytes 3-5 are %s, not FFFFFF' % m['resv'].hex())
            s = self._abort_target(sa, da, None, m['pgn'])
            rec = dict(t=fr.t, by=by, by_addr=sa, to_addr=da, reason=m['reason'], pgn=m['pgn'], idx=fr.idx)
            if s is not None and s.mode == 'cmdt':
                s.frames.append(fr.idx)
                s.abort = rec
                self._close(s, 'aborted', fr.t)
            else:
                self.stray_aborts.append(rec)

    stray_aborts = None

    def _abort_target(self, sa, da, ses, pgn):
        """an abort may come from either end; sessions in both directions can be open at once, the PGN tells them apart"""
        cands = [x for x in (self.live.get((sa, da, ses)), self.live.get((da, sa, ses))) if x is not None and x.mode == 'cmdt']
        for x in cands:
            if x.pgn == pgn:
                return x
        return None

    def _dt21(self, fr, f):
        by = fr.src
        sa, da = f['sa'], f['ps']
        d = fr.data
        s = self.live.get((sa, da, None))
        if len(d) != 8:
            self.problem('dt_length', by, 'TP.DT with %d data bytes' % len(d))
        if s is None:
            self.problem('dt_without_session', by, 'TP.DT %02X->%02X seq %s without an open session' % (sa, da, d[:1].hex()))
            return
        seq = d[0]
        s.frames.append(fr.idx)
        s.t_last = fr.t
        s.dts.append((fr.t, seq, d[1:]))
        if s.cleared_left <= 0:
            self.problem('dt_not_cleared', by, 'TP.DT seq %d of %s sent without clearance (cts so far %s)' % (seq, s.brief(), [(c[1], c[2]) for c in s.cts]))
        elif seq != s.cleared_next:
            self.problem('dt_out_of_sequence', by, 'TP.DT seq %d but packet %d was cleared next (%s)' % (seq, s.cleared_next, s.brief()))
        if seq < 1 or seq > s.packets:
            self.problem('dt_seq_range', by, 'TP.DT seq %d outside 1..%d' % (seq, s.packets))
        else:
            s.chunks[seq] = d[1:]
            used = min(7, s.size - (seq - 1) * 7)
            pad = d[1 + used:]
            if any(x != 0xFF for x in pad):
                self.problem('dt_padding', by, 'TP.DT seq %d padding %s is not FF' % (seq, pad.hex()))
        if s.cleared_left > 0:
            s.cleared_left -= 1
            s.cleared_next = seq + 1
        if s.mode == 'bam' and seq == s.packets:
            self._close(s, 'complete' if s.payload() is not None else 'incomplete', fr.t)

    # ---------------------------------------------------------------------------------
    # J1939-22
    # ---------------------------------------------------------------------------------
    def _fd_cm(self, fr, f):
        by = fr.src
        d = fr.data
        sa, da = f['sa'], f['ps']
        m = C.parse_fdcm(d)
        if len(d) not in C.FD_LENGTHS:
            self.problem('fd_length', by, 'FD.TP.CM with illegal length %d' % len(d))
        if m['type'] is None:
            self.problem('undecodable_fdcm', by, 'FD.TP.CM %s: %s' % (d.hex(), m['why']))
            return
        if len(d) != 12:
            self.problem('fdcm_length', by, 'FD.TP.CM %s with %d bytes (12 expected without assurance data)' % (m['type'], len(d)))
        t = m['type']
        ses = m['session']
        if t == 'RTS':
            if m['segments'] != C.fd_segments(m['size']):
                self.problem('rts_packet_count', by, 'FD RTS size %d announces %d segments (expected %d)' % (m['size'], m['segments'], C.fd_segments(m['size'])))
            if m['adt'] != 0:
                self.problem('rts_adt', by, 'FD RTS assurance data type %d' % m['adt'])
            if da == 255:
                self.problem('rts_to_global', by, 'FD RTS to global')
            s = Session(self.layer, 'cmdt', sa, da, ses, m['pgn'], m['size'], m['segments'], m['limit'], fr.t, fr.idx, by)
            self._open(s)
        elif t == 'BAM':
            if m['segments'] != C.fd_segments(m['size']):
                self.problem('bam_packet_count', by, 'FD BAM size %d announces %d segments' % (m['size'], m['segments']))
            if da != 255:
                self.problem('bam_not_global', by, 'FD BAM sent to %02X' % da)
            s = Session(self.layer, 'bam', sa, 255, ses, m['pgn'], m['size'], m['segments'], None, fr.t, fr.idx, by)
            s.cleared_next = 1
            s.cleared_left = m['segments']
            self._open(s)
        elif t == 'CTS':
            s = self.live.get((da, sa, ses))
            if m['resv'] != 0xFFFFFF:
                self.problem('reserved_byte', by, 'FD CTS bytes 2-4 are %06X, not FFFFFF' % m['resv'])
            if s is None or s.mode != 'cmdt':
                self.problem('cts_without_session', by, 'FD CTS %02X->%02X ses %d without an open session' % (sa, da, ses))
                return
            s.frames.append(fr.idx)
            s.resp = by
            s.t_last = fr.t
            if m['pgn'] != s.pgn:
                self.problem('cts_pgn', by, 'FD CTS carries pgn %05X, session has %05X' % (m['pgn'], s.pgn))
            s.cts.append((fr.t, m['n'], m['next'], by))
            if m['n'] == 0:
                s.holds += 1
                s.cleared_left = 0
                return
            remaining = s.packets - (m['next'] - 1)
            if m['n'] > s.limit:
                self.problem('over_grant_rts_limit', by, 'FD CTS grants %d > RTS limit %d' % (m['n'], s.limit))
            if m['n'] > remaining:
                self.problem('over_grant_remaining', by, 'FD CTS grants %d from segment %d but only %d remain of %d' % (m['n'], m['next'], remaining, s.packets))
            if m['next'] < 1 or m['next'] > s.packets:
                self.problem('cts_next_range', by, 'FD CTS next segment %d outside 1..%d' % (m['next'], s.packets))
            s.cleared_next = m['next']
            s.cleared_left = m['n']
        elif t == 'EOMS':
            s = self.live.get((sa, da, ses))
            if s is None:
                self.problem('eoms_without_session', by, 'FD EOM status %02X->%02X ses %d without an open session' % (sa, da, ses))
                return
            s.frames.append(fr.idx)
            s.t_last = fr.t
            s.eom = dict(t=fr.t, size=m['size'], packets=m['segments'], pgn=m['pgn'], by=by)
            if (m['size'], m['segments'], m['pgn']) != (s.size, s.packets, s.pgn):
                self.problem('eoms_fields', by, 'FD EOM status says size %d segments %d pgn %05X; announce said %d %d %05X'
                             % (m['size'], m['segments'], m['pgn'], s.size, s.packets, s.pgn))
            if len(s.chunks) < s.packets:
                self.problem('eoms_premature', by, 'FD EOM status after %d of %d segments' % (len(s.chunks), s.packets))
            if s.mode == 'bam':
                self._close(s, 'complete' if s.payload() is not None else 'incomplete', fr.t)
        elif t == 'EOMA':
            s = self.live.get((da, sa, ses))
            if s is None or s.mode != 'cmdt':
                self.problem('eoma_without_session', by, 'FD EOM ack %02X->%02X ses %d without an open session' % (sa, da, ses))
                return
            s.frames.append(fr.idx)
            s.resp = by
            s.eoma = dict(t=fr.t, size=m['size'], packets=m['segments'], pgn=m['pgn'], by=by)
            if (m['size'], m['segments'], m['pgn']) != (s.size, s.packets, s.pgn):
                self.problem('eoma_fields', by, 'FD EOM ack says size %d segments %d pgn %05X; RTS said %d %d %05X'
                             % (m['size'], m['segments'], m['pgn'], s.size, s.packets, s.pgn))
            if s.eom is None:
                self.problem('eoma_premature', by, 'FD EOM ack before the EOM status')
            self._close(s, 'complete', fr.t)
        elif t == 'ABORT':
            s = self._abort_target(sa, da, ses, m['pgn'])
            rec = dict(t=fr.t, by=by, by_addr=sa, to_addr=da, reason=m['reason'], pgn=m['pgn'], idx=fr.idx, session=ses)
            if s is not None and s.mode == 'cmdt':
                s.frames.append(fr.idx)
                s.abort = rec
                self._close(s, 'aborted', fr.t)
            else:
                self.stray_aborts.append(rec)

    def _fd_dt(self, fr, f):
        by = fr.src
        d = fr.data
        sa, da = f['sa'], f['ps']
        m = C.parse_fddt(d)
        if len(d) not in C.FD_LENGTHS:
            self.problem('fd_length', by, 'FD.TP.DT with illegal length %d' % len(d))
        if m['type'] is None:
            self.problem('undecodable_fddt', by, 'FD.TP.DT %s' % d.hex())
            return
        s = self.live.get((sa, da, m['session']))
        if s is None:
            self.problem('dt_without_session', by, 'FD.TP.DT %02X->%02X ses %d seg %d without an open session' % (sa, da, m['session'], m['seg']))
            return
        seq = m['seg']
        s.frames.append(fr.idx)
        s.t_last = fr.t
        s.dts.append((fr.t, seq, m['data']))
        if m['dtfi'] != 0:
            self.problem('dt_dtfi', by, 'FD.TP.DT format indicator %d' % m['dtfi'])
        if s.cleared_left <= 0:
            self.problem('dt_not_cleared', by, 'FD.TP.DT seg %d of %s sent without clearance (cts so far %s)' % (seq, s.brief(), [(c[1], c[2]) for c in s.cts]))
        elif seq != s.cleared_next:
            self.problem('dt_out_of_sequence', by, 'FD.TP.DT seg %d but segment %d was cleared next (%s)' % (seq, s.cleared_next, s.brief()))
        if seq < 1 or seq > s.packets:
            self.problem('dt_seq_range', by, 'FD.TP.DT seg %d outside 1..%d' % (seq, s.packets))
        else:
            used = min(60, s.size - (seq - 1) * 60)
            if len(m['data']) < used:
                self.problem('dt_short', by, 'FD.TP.DT seg %d carries %d bytes, %d needed' % (seq, len(m['data']), used))
            s.chunks[seq] = m['data'][:used]
            pad = m['data'][used:]
            if any(x != 0xFF for x in pad):
                self.problem('dt_padding', by, 'FD.TP.DT seg %d padding %s is not FF' % (seq, pad.hex()))
        if s.cleared_left > 0:
            s.cleared_left -= 1
            s.cleared_next = seq + 1


def sniff(layer, frames, include_lost=True):
    s = Sniffer(layer)
    s.stray_aborts = []
    s.feed_all(frames, include_lost)
    return s
