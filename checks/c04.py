"""C04 -- address claiming yields unique addresses; the lowest NAME keeps a contested one (M-CLAIM)."""
import random
import itertools

from vt.world import World
from vt import monitors as M
from vt.bus import order_fingerprint
from ref import codec as C

PROPERTY = 'C04'
LEVEL = 'exploration'
RULE = ('2-CA space enumerated over the grid {NAME order} x {AAC on/off each} x {preferred addresses equal, adjacent, distinct} x {immediate range, '
        'veto range} x {second claim -300, 0, +10, +125, +240, +251, +260, +1000 ms relative to the first} x {latency (0,5ms], half zero, all zero}; '
        'plus seeded random 3-4-CA runs (NAMEs differing in high/middle/low fields or only in the AAC bit, claim delays 1/100/500 ms), a fifth of all cases with both threads of every stack (job thread = claim timers, receive thread = handling of the other claims) pre-empted at random source lines for 0.2..3 ms, plus veto_race cases: a second claim within +-0.6 ms of the end of the first CA\'s veto window with dense pre-emption (every ~7th line) of both threads around that instant; every run '
        'lasts 20 virtual seconds; oracle at the end (bus silent >= 2 s): every CA NORMAL or CANNOT_CLAIM, operational addresses pairwise distinct, '
        'for every address claimed on the bus by >= 2 CAs the operational holder is the lowest NAME among them, a non-AAC loser is CANNOT_CLAIM and '
        'sent a claim from SA 254 with its NAME after the loss, an AAC loser is NORMAL on another address it claimed; non-trivial = >= 1 address '
        'was contested; distinct = the case descriptor')
ASSUMPTIONS = ['addresses are chosen so that every possible loss leaves room below 247 (as the property states)',
               'zero latency = the reply is handled re-entrantly inside the sender\'s send call']
MIN_OBS = {'contested_addresses': {'quick': 600, 'thorough': 10000}, 'cannot_claim_checked': {'quick': 150, 'thorough': 3000},
           'reclaims_checked': {'quick': 150, 'thorough': 3000}, 'zero_latency_cases': {'quick': 300, 'thorough': 5000},
           'preempted_cases': {'quick': 500, 'thorough': 6000}, 'preemption_holds': {'quick': 15000, 'thorough': 200000}}

NAMES = [
    C.name_value(identity_number=5, manufacturer_code=100, function=10, industry_group=1),
    C.name_value(identity_number=6, manufacturer_code=100, function=10, industry_group=1),        # differs in a low field
    C.name_value(identity_number=5, manufacturer_code=100, function=11, industry_group=1),        # middle field
    C.name_value(identity_number=5, manufacturer_code=100, function=10, industry_group=2),        # high field
    C.name_value(identity_number=1, manufacturer_code=2000, function=200, industry_group=0, vehicle_system=99),
    C.name_value(identity_number=0x1FFFFF, manufacturer_code=0, function=0, industry_group=0),
]
OFFSETS = [-0.3, 0.0, 0.010, 0.125, 0.240, 0.251, 0.260, 1.0]
LATS = ['lat', 'half', 'zero']


def cases(tier, seed):
    out = []
    rng = random.Random(4000 + seed)
    for order in (0, 1):
        for aac in itertools.product((0, 1), repeat=2):
            for rel in ('equal', 'adjacent', 'distinct'):
                for rng_kind in ('imm', 'veto'):
                    for off in OFFSETS:
                        for lat in LATS:
                            base = 40 if rng_kind == 'imm' else 150
                            addrs = {'equal': [base, base], 'adjacent': [base, base + 1], 'distinct': [base, base + 20]}[rel]
                            nm = [NAMES[0], NAMES[1 + (len(out) % 3)]]
                            if order:
                                nm.reverse()
                            out.append(dict(kind='grid2', names=nm, aac=list(aac), addrs=addrs, claims=[1.0, 1.0 + off],
                                            delays=[0.1, [0.001, 0.1, 0.5][len(out) % 3]], lat=lat, seed=seed * 31 + len(out)))
    nrand = 1500 if tier == 'quick' else 20000
    for i in range(nrand):
        n = rng.choice([3, 3, 4])
        names = rng.sample(NAMES, n)
        aac = [rng.randrange(2) for _ in range(n)]
        if rng.random() < 0.2:
            # two NAMEs that differ only in the AAC bit
            names[1] = names[0]
            aac[0], aac[1] = 0, 1
        kind = rng.choice(['imm', 'veto', 'mixed'])
        base = {'imm': rng.choice([40, 40, 0]), 'veto': 150, 'mixed': 126}[kind]          # address 0 is a legal (and falsy) preferred address
        style = rng.choice(['equal', 'cluster', 'spread'])
        if style == 'equal':
            addrs = [base] * n
        elif style == 'cluster':
            addrs = [base + rng.randrange(2) for _ in range(n)]
        else:
            addrs = [base + rng.randrange(0, 6) for _ in range(n)]
        for j in range(n):
            if not aac[j] and rng.random() < 0.2:
                addrs[j] = rng.choice([248, 249, 253]) if rng.random() < 0.5 else addrs[j]
        claims = [1.0 + rng.choice(OFFSETS + [0.0, 0.0, 0.002, 0.5, 2.0]) for _ in range(n)]
        out.append(dict(kind='rand', names=names, aac=aac, addrs=addrs, claims=claims, delays=[rng.choice([0.001, 0.1, 0.5]) for _ in range(n)],
                        lat=rng.choice(LATS + ['lat']), seed=rng.randrange(1 << 30)))
    # the end of the veto window under pre-emption: a lower (or higher) NAME claims the address within +-0.6 ms of the instant the first CA's
    # veto timer expires, while both of its threads are pre-empted at every few source lines around that instant
    for i in range(300 if tier == 'quick' else 4000):
        nm = rng.sample(NAMES, 2)
        out.append(dict(kind='veto_race', names=nm, aac=[rng.randrange(2), rng.randrange(2)], addrs=[150, 150],
                        claims=[1.0, 1.0 + 0.25 + rng.uniform(-0.0006, 0.0008)], delays=[0.1, 0.001], lat=rng.choice(['lat', 'lat', 'half']),
                        seed=rng.randrange(1 << 30)))
    if tier == 'thorough':
        # 3-CA grid on one address
        for perm in itertools.permutations(range(3)):
            for aac in itertools.product((0, 1), repeat=3):
                for o1 in (0.0, 0.125, 0.26):
                    for o2 in (0.0, 0.010, 0.240, 0.6):
                        for lat in LATS:
                            for base in (40, 150):
                                out.append(dict(kind='grid3', names=[NAMES[p] for p in perm], aac=list(aac), addrs=[base] * 3, claims=[1.0, 1.0 + o1, 1.0 + o2],
                                                delays=[0.1, 0.001, 0.5], lat=lat, seed=seed * 37 + len(out)))
    return out


def run_case(case):
    n = len(case['names'])
    zero = {'lat': 0.0, 'half': 0.5, 'zero': 1.0}[case['lat']]
    # the claim procedure is the same on both data link layers; a quarter of the cases run on J1939-22 stacks
    layer = case.get('layer') or ('j1939-22' if random.Random(case['seed'] ^ 0x22).random() < 0.25 else 'j1939-21')
    W = World(case['seed'], layer, (1e-5, 0.005), zero)
    sim = W.sim
    viol = M.Violations()
    cas = []
    names = []
    # in a fifth of the cases both threads of every stack are pre-empted at random source lines (job thread: the claim timers; receive thread:
    # the handling of the other CAs' claims) for 0.2..3 ms
    race = case['kind'] == 'veto_race'
    pre = race or random.Random(case['seed'] ^ 0xC04).random() < 0.2
    holds = [0]
    pre_on = [not race]
    srng = random.Random(case['seed'] ^ 0x510)
    slow = (not pre) and srng.random() < 0.2
    if race:
        # dense pre-emption, but only around the end of the first CA's veto window
        sim.at(1.2492, lambda: pre_on.__setitem__(0, True))
        sim.at(1.2525, lambda: pre_on.__setitem__(0, False))
    for i in range(n):
        if pre:
            from vt import preempt as PRE
            pp = 0.15 if race else 0.01
            hh = (0.0002, 0.0005, 0.001) if race else (0.0002, 0.001, 0.003)
            sim.trace_hook = PRE.random_tracer(sim, case['seed'] ^ (0x40 + i), p=pp, holds=hh, counter=holds, max_holds=400, on=pre_on)
            node = W.stack('N%d' % i, rx_thread=True, rx_trace=PRE.random_tracer(sim, case['seed'] ^ (0x80 + i), p=pp, holds=hh, counter=holds, max_holds=400, on=pre_on))
            sim.trace_hook = None
        elif slow:
            # a slow interface: every send call of this stack blocks its caller for up to 100 ms after the frame is out (a congested bus,
            # a blocking driver); the frames of the other CAs arrive meanwhile
            node = W.stack('N%d' % i, rx_thread=True)
            node.send_time = srng.choice([0.02, 0.08, (0.0, 0.1)])
        else:
            node = W.stack('N%d' % i)
        nv = (case['names'][i] & ~(1 << 63)) | (case['aac'][i] << 63)
        names.append(nv)
        ca = W.ca(node, case['addrs'][i], name_value=nv, bypass=False)
        cas.append(ca)
        t_start = max(0.011, case['claims'][i] - case['delays'][i])
        sim.at(t_start, ca.start, case['delays'][i])
    W.run(20.0)
    j = W.j1939
    ST = j.ControllerApplication.State
    obs = dict(contested_addresses=0, cannot_claim_checked=0, reclaims_checked=0, zero_latency_cases=1 if zero else 0, claim_frames=0, fd_layer_cases=1 if layer == 'j1939-22' else 0, preempted_cases=1 if pre else 0, preemption_holds=holds[0], slow_interface_cases=1 if slow else 0, slow_sends=sum(s.slow_sends for s in W.stacks))
    M.m_live(viol, W, layer)
    tag = dict(layer=layer, lat=case['lat'])
    # claims seen on the bus: address -> set of CA indices; cannot-claim frames per CA
    by_name = {}
    for i, nv in enumerate(names):
        by_name.setdefault(nv, []).append(i)
    claimed = {}
    cannot = {}
    last_frame_t = 0.0
    for f in W.bus.frames:
        idf = C.split_id(f.can_id)
        last_frame_t = max(last_frame_t, f.t)
        if idf['pf'] != C.PF_ADDRESS_CLAIM:
            continue
        obs['claim_frames'] += 1
        if idf['ps'] != 255 or len(f.data) != 8:
            viol.add('claim_format', 'address-claimed frame not sent to 255 / not 8 bytes: %s' % f.brief(), **tag)
            continue
        nv = C.un_le(f.data)
        src_idx = int(f.src[1:])
        if nv != names[src_idx]:
            viol.add('claim_name', '%s sent a claim carrying NAME %016X, its own is %016X' % (f.src, nv, names[src_idx]), **tag)
        if idf['sa'] == 254:
            cannot.setdefault(src_idx, []).append(f.t)
        else:
            claimed.setdefault(idf['sa'], {}).setdefault(src_idx, []).append(f.t)
    if 20.0 - last_frame_t < 2.0:
        viol.add('not_settled', 'bus still active %.2f s before the end of the 20 s run (last frame at %.3f)' % (20.0 - last_frame_t, last_frame_t), **tag)
    state = [c.state for c in cas]
    addr = [c.device_address for c in cas]
    for i, c in enumerate(cas):
        if state[i] not in (ST.NORMAL, ST.CANNOT_CLAIM):
            viol.add('not_settled', 'N%d ended in state %r' % (i, state[i]), **tag)
    holders = {}
    for i in range(n):
        if state[i] == ST.NORMAL:
            holders.setdefault(addr[i], []).append(i)
    for a, lst in holders.items():
        if len(lst) > 1:
            viol.add('duplicate_address', 'address %d is held by %s at quiescence (NAMEs %s; claims at %s)'
                     % (a, ['N%d' % i for i in lst], ['%016X' % names[i] for i in lst], case['claims']), **tag)
        if a in (254, 255) or a is None:
            viol.add('operational_without_address', 'N%d is NORMAL with address %r' % (lst[0], a), **tag)
    for a, who in claimed.items():
        if len(who) < 2:
            continue
        obs['contested_addresses'] += 1
        best = min(who, key=lambda i: names[i])
        if names[best] in [names[i] for i in who if i != best]:
            continue       # identical NAME values: outside the property ("different NAMEs")
        hold = holders.get(a, [])
        if hold != [best]:
            viol.add('wrong_winner', 'address %d was claimed by %s; lowest NAME is N%d (%016X) but the holder at quiescence is %s (states %s, addresses %s)'
                     % (a, sorted('N%d' % i for i in who), best, names[best], ['N%d' % i for i in hold], state, addr), **tag)
        for i in who:
            if i == best:
                continue
            # i lost address a
            if not (names[i] >> 63):
                obs['cannot_claim_checked'] += 1
                if state[i] != ST.CANNOT_CLAIM:
                    viol.add('loser_state', 'N%d (not arbitrary-address-capable) lost address %d to N%d but ended %r at %r' % (i, a, best, state[i], addr[i]), aac=0, **tag)
                t_loss = min(who[best])
                # (pre-empted cases: the CA's own claim frame may reach the bus after the loss it caused -- the job thread was held inside the
                #  send of the claim, the state having been entered before the send -- so the announcement may precede it)
                if not [t for t in cannot.get(i, []) if pre or t >= min(who[i]) - 1e-9]:
                    viol.add('cannot_claim_missing', 'N%d lost address %d but never announced cannot-claim from the null address' % (i, a), **tag)
            else:
                obs['reclaims_checked'] += 1
                if state[i] != ST.NORMAL or addr[i] == a:
                    viol.add('loser_state', 'N%d (arbitrary-address-capable) lost address %d to N%d but ended %r at %r' % (i, a, best, state[i], addr[i]), aac=1, **tag)
                elif i not in claimed.get(addr[i], {}):
                    viol.add('reclaim_missing', 'N%d ended on address %d without ever claiming it on the bus' % (i, addr[i]), **tag)
    for i in range(n):
        if state[i] == ST.CANNOT_CLAIM and (names[i] >> 63):
            viol.add('loser_state', 'N%d is arbitrary-address-capable but ended in CANNOT_CLAIM' % i, aac=1, **tag)
        if state[i] == ST.CANNOT_CLAIM and i not in cannot:
            viol.add('cannot_claim_missing', 'N%d is CANNOT_CLAIM but no claim from SA 254 with its NAME is on the bus' % i, **tag)
    sig = repr((case['kind'], tuple(case['aac']), tuple(case['addrs']), tuple(round(c, 3) for c in case['claims']), case['lat'],
                tuple(sorted(range(n), key=lambda i: names[i]))))
    sample = dict(case={k: (['%016X' % x for x in v] if k == 'names' else v) for k, v in case.items()},
                  end=[('N%d' % i, int(state[i]), addr[i]) for i in range(n)],
                  frames=[f.brief() for f in W.bus.frames[:10]])
    res = dict(violations=list(viol), inconclusive=None, sig=sig, nontrivial=obs['contested_addresses'] > 0, obs=obs, sample=sample)
    res['fingerprint'] = order_fingerprint(W.bus.frames)
    if case.get('trace'):
        res['trace'] = [f.brief() for f in W.bus.frames]
    W.close()
    return res
