"""C13 -- a controller application sends application data only from an address it holds (M-SRC)."""
import random

from vt.world import World
from vt import monitors as M
from vt.bus import ScriptNode
from ref import codec as C

PROPERTY = 'C13'
LEVEL = 'exploration'
RULE = ('cases = claim histories of one CA (bypassed / immediate range / veto range; arbitrary-address-capable or not) driven by a scripted contender '
        '(no contender, lower NAME claiming during the veto window, lower NAME claiming after the CA is operational, higher NAME claiming, two successive lower-NAME claims for the preferred and the re-claimed address, a lower-NAME claim against a bypassed CA that was never started, against a bypassed CA that was started, and against a CA that was stopped after becoming operational; an interface that refuses the address-claim frame of the CA (can.CanError from the send backend); contender NAMEs whose numeric order is opposite to the order of their low bytes; preferred addresses incl. the range boundaries 0, 127, 128, 247, 248, 253) on either '
        'data link layer; at instants before start, during the claim delay, during WAIT_VETO, operational, 1 ms after a loss, after the re-claim and '
        'in CANNOT_CLAIM every send entry point is called: send_pgn <= 8 bytes, send_pgn > 8 bytes, send_message, send_request(ordinary PGN), '
        'send_request(address-claim PGN), Dm22 request, Dm11.request_clear_all, Dm14Query.read (50 ms time-out), and a Dm1 send cycle at the end; '
        'oracle = calls made while the CA is not operational raise and emit nothing except a request-for-address-claim from SA 254; every frame '
        'the node emits that is not an address claim / cannot-claim / that request carries the address the CA holds at the instant of emission '
        '(state sampled at every frame) never the preferred address in 128..247 earlier than 249 ms after its initial claim, and never an address a lower NAME has claimed on the bus more than 5 ms earlier; non-trivial = >= 1 probe in an operational and >= 1 in a non-operational state; distinct = history + layer')
ASSUMPTIONS = ['"holds" is read through the public state / device_address properties at the instant each frame is emitted and cross-checked against the '
               'CA\'s own last claim frame on the bus', 'a Dm1 cycle that raises inside the job thread may end that thread; liveness is not part of this property']
MIN_OBS = {'calls_nonoperational': {'quick': 10000, 'thorough': 100000}, 'calls_operational': {'quick': 10000, 'thorough': 100000},
           'frames_attributed': {'quick': 15000, 'thorough': 150000}, 'null_address_requests': {'quick': 1000, 'thorough': 12000}}

HISTORIES = ['bypass', 'imm_ok', 'veto_ok', 'veto_lose', 'lose_after', 'win', 'lose_twice', 'bypass_lose', 'stopped_lose', 'bypass_started_lose', 'claim_send_fails']


def cases(tier, seed):
    rng = random.Random(13000 + seed)
    out = []
    n = 80 if tier == 'quick' else 6000
    for layer in ('j1939-21', 'j1939-22'):
        for h in HISTORIES:
            for aac in (0, 1):
                for k in range(n // 4 if tier == 'quick' else n // 12):
                    out.append(dict(layer=layer, hist=h, aac=aac, seed=rng.randrange(1 << 30)))
    return out


def run_case(case):
    rng = random.Random(case['seed'])
    layer = case['layer']
    fd = layer == 'j1939-22'
    hist = case['hist']
    W = World(case['seed'], layer, (0.0001, 0.002), 0.0 if fd else rng.choice([0.0, 0.0, 0.5]))
    sim = W.sim
    j = W.j1939
    viol = M.Violations()
    tag = dict(layer=layer)
    A = W.stack('A')
    X = ScriptNode(W.bus, 'X')
    ST = j.ControllerApplication.State
    pref = rng.randrange(130, 240) if hist in ('veto_ok', 'veto_lose', 'lose_twice', 'claim_send_fails') else rng.randrange(2, 120)
    if hist in ('lose_after', 'win', 'bypass') and rng.random() < 0.5:
        pref = rng.randrange(130, 240)
    # boundaries of the veto range (128..247) and of the immediate ranges, where no loss can push the CA out of room
    if hist in ('veto_ok', 'win') or (hist in ('veto_lose',) and not case['aac']):
        if rng.random() < 0.5:
            pref = rng.choice([128, 247, 247, 129, 246])
    elif hist in ('imm_ok', 'bypass') or (hist == 'lose_after' and not case['aac']):
        if rng.random() < 0.5:
            pref = rng.choice([0, 1, 127, 248, 253])
    nv = C.name_value(identity_number=500, function=30, arbitrary_address_capable=case['aac'])
    ca = W.ca(A, pref, name_value=nv, bypass=(hist in ('bypass', 'bypass_lose', 'bypass_started_lose')))
    if hist == 'claim_send_fails':
        # the interface refuses the CA's first frame, i.e. its address claim (can.CanError out of the send backend): the claim never reaches the bus
        failed = []

        def refuse(can_id, data):
            if ((can_id >> 16) & 0xFF) == C.PF_ADDRESS_CLAIM and not failed:
                failed.append(can_id)
                return True
            return False
        A.fail_pred = refuse
    # contender NAMEs whose numeric order is opposite to the order of their low (first transmitted) bytes
    LOW = C.name_bytes(C.name_value(identity_number=rng.choice([3, 0xFF, 0x1FFFFF])))
    LOW2 = C.name_bytes(C.name_value(identity_number=rng.choice([4, 0xFE, 0x1FFFFE])))
    lost = {}          # address -> instant a lower NAME claimed it on the bus (the CA must not send from it afterwards)
    HIGH = C.name_bytes(C.name_value(identity_number=rng.choice([900, 1, 0]), function=200, industry_group=5, arbitrary_address_capable=1))
    dm22 = j.Dm22(ca)
    dm11 = j.Dm11(ca)
    q = j.Dm14Query(ca)
    obs = dict(calls_nonoperational=0, calls_operational=0, frames_attributed=0, null_address_requests=0, job_thread_died=0, probes_inside_claim_send=0, slow_interface_cases=0)

    # sample the CA's state at the emission of every frame
    at_emit = {}

    inside = []          # probes made from inside the send call of one of the CA's own claim / cannot-claim frames

    def hook(fr):
        if fr.src == 'A':
            at_emit[fr.idx] = (ca.state, ca.device_address)
            if C.split_id(fr.can_id)['pf'] == C.PF_ADDRESS_CLAIM and probe_inside and len(inside) < 4 and not in_probe[0]:
                # another thread of the application calls the send entry points exactly while this claim frame is being handed to the
                # interface (the claim state the CA has entered for this frame is what counts)
                inside.append(sim.now)
                probe(spawn_read=False)
    W.bus.on_frame_hooks.append(hook)
    in_probe = [0]
    prng_ = random.Random(case['seed'] ^ 0x1C13)
    probe_inside = prng_.random() < 0.5
    if prng_.random() < 0.25:
        A.send_time = 0.08          # a slow interface: the send call of every frame blocks the job thread for 80 ms (claims of others arrive meanwhile)

    t_start = 0.3
    delay = rng.choice([0.01, 0.1, 0.3])
    t_claim = t_start + delay
    # the application's listener: subscribed right away or only once the CA is operational (what it is bound to must follow the CA)
    heard = []
    lsn = lambda priority, pgn, sa, timestamp, data: heard.append((sim.now, pgn, sa))
    if prng_.random() < 0.5:
        ca.subscribe(lsn)
    else:
        sim.at(t_claim + 0.3, ca.subscribe, lsn)
    if hist not in ('bypass', 'bypass_lose'):
        sim.at(t_start, ca.start, delay)
    events = []
    if hist == 'veto_lose':
        t_l = t_claim + rng.choice([0.01, 0.12, 0.24])
        sim.at(t_l, X.send, C.make_id(6, 0, C.PF_ADDRESS_CLAIM, 255, pref), LOW, fd)
        events.append(t_l)
    elif hist == 'lose_after':
        t_l = t_claim + 0.8 + rng.uniform(0, 0.4)
        sim.at(t_l, X.send, C.make_id(6, 0, C.PF_ADDRESS_CLAIM, 255, pref), LOW, fd)
        events.append(t_l)
    elif hist == 'win':
        t_l = t_claim + 0.6
        sim.at(t_l, X.send, C.make_id(6, 0, C.PF_ADDRESS_CLAIM, 255, pref), HIGH, fd)
        events.append(t_l)
    elif hist in ('bypass_lose', 'stopped_lose', 'bypass_started_lose'):
        # the CA is operational without a running claim timer (claim bypassed and never started / stopped after it became operational)
        # when a lower NAME claims its address: it loses the address all the same
        t_l = t_claim + 1.0
        if hist == 'stopped_lose':
            sim.at(t_claim + 0.7, ca.stop)
        sim.at(t_l, X.send, C.make_id(6, 0, C.PF_ADDRESS_CLAIM, 255, pref), LOW, fd)
        events.append(t_l)
        lost[pref] = t_l
    elif hist == 'lose_twice':
        # loses the preferred address, re-claims the next one, and that one is defended by another lower NAME during the new veto wait
        t_l = t_claim + rng.choice([0.1, 0.8])
        sim.at(t_l, X.send, C.make_id(6, 0, C.PF_ADDRESS_CLAIM, 255, pref), LOW, fd)
        t_2 = t_l + rng.choice([0.01, 0.05, 0.12])
        sim.at(t_2, X.send, C.make_id(6, 0, C.PF_ADDRESS_CLAIM, 255, pref + 1), LOW2, fd)
        events += [t_l, t_2]
        lost[pref] = t_l
        if case['aac']:
            lost[pref + 1] = t_2
    if hist in ('veto_lose', 'lose_after'):
        lost[pref] = events[0]
    # after every scripted loss somebody talks to the address the CA has just lost: a transport request, a data packet and a PGN request.
    # Whatever the stack answers would be a frame from an address the CA no longer holds
    def poke(addr):
        if fd:
            X.send(C.make_id(6, 0, C.PF_FD_TP_CM, addr, 0x71), C.fdcm_rts(1, 200, 255, 0xD000), fd)
        else:
            X.send(C.make_id(6, 0, C.PF_TP_CM, addr, 0x71), C.tpcm_rts(20, 255, 0xD000))
        X.send(C.make_id(6, 0, C.PF_REQUEST, addr, 0x71), C.request_payload(0xFECA), fd)
    for a_lost, t_lost in list(lost.items()):
        sim.at(t_lost + 0.3, poke, a_lost)
        sim.at(t_lost + 1.4, poke, a_lost)
    # probe instants
    probes = [0.1, t_start + delay / 2, t_claim + 0.0005, t_claim + 0.1, t_claim + 0.26, t_claim + 0.5]
    for e in events:
        probes += [e + 0.003, e + 0.26, e + 0.8, e + 1.6]
    probes = sorted(set(round(p + rng.uniform(0, 0.0003), 6) for p in probes))
    # keep operational probes that start a BAM away from a scripted loss: BAM of 9..20 bytes needs <= 150 ms
    probes = [p for p in probes if not any(0 < e - p < 0.2 for e in events)]
    results = []
    dest = 0x55

    def entry_points():
        big = [rng.randrange(256) for _ in range(rng.choice([9, 20]) if not fd else rng.choice([61, 100]))]
        return [
            ('send_pgn_short', lambda: ca.send_pgn(0, 0xD0, dest, 6, [1, 2, 3, 4, 5])),
            ('send_pgn_long', lambda: ca.send_pgn(0, 0xFE, 0xF3, 6, list(big))),
            ('send_message', lambda: ca.send_message(6, 0xFEF1, [1, 2, 3, 4, 5, 6, 7, 8])),
            ('send_request', lambda: ca.send_request(0, 0xFECA, dest)),
            ('send_request_claim', lambda: ca.send_request(0, 0xEE00, 255)),
            ('dm22', lambda: dm22.request_clear_act_dtc(dest, 1234, 5)),
            ('dm11', lambda: dm11.request_clear_all(dest)),
        ]

    def probe(spawn_read=True):
        st0, ad0 = ca.state, ca.device_address
        operational = st0 == ST.NORMAL
        in_probe[0] += 1
        try:
            for name, fn in entry_points():
                if name == 'send_pgn_long' and (not spawn_read or A.send_time):
                    continue          # no transport session that would still be running (from the old address) when the CA loses it
                rec = W.call(name, fn)
                own = [f for f in W.bus.frames[rec['frames_before']:rec['frames_after']] if f.src == 'A' and f.thread == rec['thread']]
                results.append((sim.now, name, operational, rec, own, ad0))
        finally:
            in_probe[0] -= 1
        if not spawn_read:
            return
        # Dm14Query.read blocks: run it in an application task
        box = {}

        def task():
            n0 = len(W.bus.frames)
            box['state'] = (ca.state == ST.NORMAL, ca.device_address)       # sampled when the task actually starts (it runs on from here without a switch)
            try:
                q.read(dest, 1, 0x1000, 1, max_timeout=0.05)
                box['exc'] = None
            except Exception as e:
                box['exc'] = repr(e)
            box['frames'] = (n0, len(W.bus.frames))
        st_task = (ca.state == ST.NORMAL, ca.device_address)
        sim.spawn(task, name='dm14read')
        results.append((sim.now, 'dm14_read', st_task[0], box, None, st_task[1]))
    for p in probes:
        sim.at(p, probe)
    t_end = max(probes) + 2.0
    W.run(t_end)
    # a Dm1 send cycle at the end, whatever the state is then
    dm1 = j.Dm1(ca)
    st_dm1 = (ca.state == ST.NORMAL, ca.device_address)
    n_dm1 = len(W.bus.frames)
    dm1.start_send(lambda: ({'pl': 1}, [{'spn': 100, 'fmi': 3, 'oc': 1}]), 0.02)
    W.run(t_end + 0.1)
    dm1_frames = [f for f in W.bus.frames[n_dm1:] if f.src == 'A']
    if W.liveness_problems():
        obs['job_thread_died'] += 1
    obs['probes_inside_claim_send'] = len(inside)
    obs['slow_interface_cases'] = 1 if A.send_time else 0

    # ---- oracle ------------------------------------------------------------------------------------
    def is_claim(fr):
        f = C.split_id(fr.can_id)
        return f['pf'] == C.PF_ADDRESS_CLAIM

    def is_null_request(fr):
        f = C.split_id(fr.can_id)
        if fd:
            if f['pf'] == C.PF_MULTI_PG and f['sa'] == 254:
                g, pr = C.parse_mpg(fr.data)
                return len(g) == 1 and g[0][2] == 0xEA00 and g[0][3] == C.request_payload(0xEE00)
            return False
        return f['pf'] == C.PF_REQUEST and f['sa'] == 254 and fr.data == C.request_payload(0xEE00)

    for (t, name, operational, rec, own, ad0) in results:
        if name == 'dm14_read':
            box = rec
            if 'state' in box:
                operational, ad0 = box['state']
            if 'frames' not in box:
                viol.add('call_never_returned', 'Dm14Query.read (50 ms time-out) started at %.4f never returned' % t, **tag)
                continue
            own = [f for f in W.bus.frames[box['frames'][0]:box['frames'][1]] if f.src == 'A' and (f.can_id & 0xFF) not in ()]
            own = [f for f in own if C.split_id(f.can_id)['pf'] in (C.PF_DM14, C.PF_MULTI_PG)] if True else own
            exc = box['exc']
        else:
            exc = rec['exc']
        if operational:
            obs['calls_operational'] += 1
            if name != 'dm14_read' and exc is not None:
                viol.add('operational_call_raised', '%s raised %s although the CA was operational at %d (t=%.4f)' % (name, exc, ad0, t), entry=name, **tag)
            if name == 'dm14_read' and not own:
                viol.add('operational_call_silent', 'Dm14Query.read put nothing on the bus although the CA was operational', entry=name, **tag)
        else:
            obs['calls_nonoperational'] += 1
            allowed = [f for f in own if is_null_request(f)] if name == 'send_request_claim' else []
            extra = [f for f in own if f not in allowed]
            if name == 'send_request_claim':
                if len(allowed) == 1:
                    obs['null_address_requests'] += 1
                if exc is not None or len(allowed) != 1:
                    viol.add('null_request', 'send_request(address claim) in state %s: raised %s, emitted %s (expected exactly one request from SA 254)'
                             % ('non-operational', exc, [f.brief() for f in own]), entry=name, **tag)
            elif exc is None:
                viol.add('nonoperational_call_accepted', '%s did not raise at t=%.4f although the CA held no address' % (name, t), entry=name, **tag)
            if extra:
                viol.add('nonoperational_call_emitted', '%s at t=%.4f (CA not operational) put on the bus: %s' % (name, t, extra[0].brief()), entry=name, **tag)
    # every frame of A: claim / null request / or SA == held address at emission
    last_claim = None
    first_claim = {}
    for f in W.bus.frames:
        if f.src != 'A':
            continue
        if is_claim(f) and (f.can_id & 0xFF) != 254:
            first_claim.setdefault(f.can_id & 0xFF, f.t)
        st, ad = at_emit.get(f.idx, (None, None))
        sa = f.can_id & 0xFF if f.ext else f.can_id & 0xFF
        if is_claim(f):
            if sa == 255:
                viol.add('claim_from_illegal_address', 'address claim sent from SA 255: %s' % f.brief(), **tag)
            if sa != 254:
                last_claim = sa
            continue
        if is_null_request(f):
            if st == ST.NORMAL:
                viol.add('null_request_while_operational', 'request for address claim sent from 254 while the CA was operational at %r' % ad, **tag)
            continue
        obs['frames_attributed'] += 1
        if st != ST.NORMAL:
            viol.add('frame_without_address', 'frame %s emitted while the CA was in state %r' % (f.brief(), st), **tag)
        elif sa > 253:
            viol.add('sent_from_illegal_address', 'frame %s carries SA %02X (the CA reports address %r): not an address a CA can hold' % (f.brief(), sa, ad), **tag)
        elif sa != ad:
            viol.add('wrong_source_address', 'frame %s carries SA %02X but the CA holds %r' % (f.brief(), sa, ad), **tag)
        elif hist not in ('bypass', 'bypass_lose', 'bypass_started_lose') and sa not in first_claim:
            viol.add('sent_without_claim', 'frame %s carries SA %02X but no address claim of the CA for that address ever reached the bus' % (f.brief(), sa), **tag)
        elif hist not in ('bypass', 'bypass_lose', 'bypass_started_lose') and sa == pref and 128 <= pref <= 247 and sa in first_claim and f.t < first_claim[sa] + 0.249:
            # the initial claim of an address in 128..247 completes only after the 250 ms veto time (J1939-81)
            viol.add('sent_before_claim_completed', 'frame %s sent %.1f ms after the initial claim for address %d (veto time 250 ms)'
                     % (f.brief(), (f.t - first_claim[sa]) * 1000, sa), **tag)
        elif sa in lost and f.t > lost[sa] + 0.005:
            viol.add('sent_from_lost_address', 'frame %s carries SA %02X although a lower NAME claimed that address at %.4f' % (f.brief(), sa, lost[sa]), **tag)
        elif last_claim is not None and sa != last_claim and hist not in ('bypass', 'bypass_lose'):
            viol.add('wrong_source_address', 'frame %s carries SA %02X but the CA\'s last claim on the bus was for %02X' % (f.brief(), sa, last_claim), **tag)
    if st_dm1[0]:
        if not [f for f in dm1_frames if not is_claim(f)]:
            viol.add('operational_call_silent', 'Dm1 send cycle produced no frame in 100 ms although the CA was operational', entry='dm1', **tag)
    else:
        bad = [f for f in dm1_frames if not is_claim(f) and not is_null_request(f)]
        if bad:
            viol.add('nonoperational_call_emitted', 'Dm1 cycle emitted %s while the CA held no address' % bad[0].brief(), entry='dm1', **tag)
    n_op = sum(1 for r in results if r[2])
    n_non = sum(1 for r in results if not r[2])
    sig = repr((layer, hist, case['aac'], pref >= 128, n_op > 0, n_non > 0))
    sample = dict(case=case, pref=pref, probes=[(round(t, 4), name, op) for (t, name, op, *_r) in results[:12]],
                  final=(int(ca.state), ca.device_address), frames=[f.brief() for f in W.bus.frames[:8]])
    res = dict(violations=list(viol), inconclusive=None, sig=sig, nontrivial=n_op > 0 and n_non > 0, obs=obs, sample=sample)
    if case.get('trace'):
        res['trace'] = [f.brief() for f in W.bus.frames]
    W.close()
    return res
