"""C01 -- J1939-21 transport delivers every accepted message intact, exactly once."""
import random
from . import tpcommon

PROPERTY = 'C01'
LEVEL = 'exploration'
RULE = ('cases = seeded random 2-4-stack J1939-21 scenarios (1-12 messages, lengths 0..1785 incl. boundary set, PDU1->specific via RTS/CTS, '
        'PDU1->255 and PDU2 via BAM, windows 1..255 per stack, latency profiles in [0,5ms] incl. re-entrant zero latency, clustered submission '
        'instants, same-pair collisions) plus, in the thorough tier, sequential sweeps covering every length 0..1785 in RTS/CTS and BAM; '
        'a case is non-trivial when >=1 accepted multi-packet message was compared at a listener; distinct = (stacks, set of (length class, mode), '
        'latency class, window classes, refusal seen)')
ASSUMPTIONS = ['virtual-time engine schedules one thread at a time; frame handlers are not pre-empted (C08 covers pre-emption)',
               'protocol PGNs (PF EA/EB/EC/EE) are not used as application PGNs',
               'PGNs are compared with PS cleared for PDU1 (DESIGN.md PGN*)']
MIN_OBS = {'multipacket_accepted': {'quick': 2500, 'thorough': 25000}, 'deliveries_compared': {'quick': 10000, 'thorough': 100000},
           'zero_latency_cases': {'quick': 300, 'thorough': 3000}, 'eom_notifications': 1000, 'messages_refused': 100,
           'rx_thread_cases': {'quick': 100, 'thorough': 1000}, 'rx_handler_holds': {'quick': 3000, 'thorough': 30000}}


def cases(tier, seed):
    rng = random.Random(1000 + seed)
    out = []
    n = 1200 if tier == 'quick' else 12000
    for i in range(n):
        out.append(dict(kind='random', seed=rng.randrange(1 << 30)))
    # same-pair collisions: many messages between two stacks at one instant
    for i in range(60 if tier == 'quick' else 400):
        out.append(dict(kind='collide', seed=rng.randrange(1 << 30), n=2, count=rng.randint(4, 10), modes=['p2p', 'bam2', 'bam1'],
                        lengths=[9, 15, 30, 100, 400]))
    if tier == 'thorough':
        # every length once per mode, in chunks, two window settings
        for mode in ('p2p', 'bam2'):
            for lo in range(0, 1786, 24):
                seq = [(mode, L) for L in range(lo, min(lo + 24, 1786))]
                out.append(dict(kind='sweep', seed=rng.randrange(1 << 30), n=2, sequential=seq, bam_interval=0.010 if lo % 48 else None,
                                zero=rng.choice([0.0, 0.5])))
    else:
        for mode in ('p2p', 'bam2'):
            ls = sorted(set(tpcommon.BOUNDARY_21 + [rng.randint(0, 1785) for _ in range(12)]))
            out.append(dict(kind='sweep', seed=rng.randrange(1 << 30), n=2, sequential=[(mode, L) for L in ls], bam_interval=0.010))
    return out


def run_case(case):
    return tpcommon.run_scenario(case, 'j1939-21')


def coverage(results, tier):
    return dict(explanation='each case is one execution of real ECUs on the virtual-time bus; oracle M-DELIV/M-QUIET/M-LIVE')
