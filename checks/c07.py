"""C07 -- no sequence of received frames can stop, stall or permanently clog the stack."""
import random
import collections

from vt.world import World
from vt import monitors as M
from vt.bus import order_fingerprint
from vt.bus import ScriptNode
from ref import codec as C

PROPERTY = 'C07'
LEVEL = 'exploration'
RULE = ('cases = seeded random sequences of 1..60 frames over a protocol-aware alphabet (TP.CM/TP.DT, on FD FD.TP.CM/FD.TP.DT/Multi-PG and the '
        'classic TP identifiers; to the stack\'s address, a foreign address and 255; from an ordinary peer, a third node, the stack\'s own address, 254 '
        'and 255; every defined control byte plus random ones; sessions 0..15; size/packet/sequence/window fields from boundary sets and random; data '
        'lengths 0..8 (0..64 FD); gaps 0..3.1 s; in 12 % of the longer sequences a gap-0 burst of 20..48 session-opening frames from as many sources fed in at one instant) put on the bus by a scripted node (seen by two real stacks) or fed straight into ecu.notify / the '
        'listener of the stack under test, interleaved with the stack\'s own send_pgn calls; in half of the cases delivery latency is zero with probability 0.5/1 (a frame is handled while the sender is still inside its send call) and the scripted node additionally answers transport frames of the real stacks at once with an abort / CTS / end-of-message / data frame aimed at the same session; oracle after the sequence: job threads alive, never '
        'span, parked with a positive time-out; after 3.7 s of quiet (hold time + longest time-out) all session tables empty / FD pools full; a probe timer fires on time; one '
        'well-formed transfer in each direction is delivered intact; non-trivial = >=1 frame reached a transport handler of a stack; distinct = '
        'layer + set of (frame class, control) fed + own sends')
ASSUMPTIONS = ['exceptions returned to the caller of ecu.notify are counted, never judged', 'own transfers interleaved with the hostile traffic are short '
               '(<= 5 packets) so that every session is due to be released within the quiet period']
MIN_OBS = {'frames_fed': {'quick': 100000, 'thorough': 2000000}, 'exceptions_contained': {'quick': 1000, 'thorough': 20000},
           'sessions_opened': {'quick': 2500, 'thorough': 50000}, 'followups_ok': {'quick': 8000, 'thorough': 150000},
           'probe_timers_ok': {'quick': 8000, 'thorough': 150000}, 'reactive_frames': {'quick': 3000, 'thorough': 60000},
           'zero_latency_cases': {'quick': 1500, 'thorough': 30000}}
MIN_OBS_UNLESS = {'sessions_opened': 'tables_not_observed'}      # private table names may be gone after a refactor

SELF, PEER, THIRD = 0x10, 0x20, 0x30


def cases(tier, seed):
    rng = random.Random(7000 + seed)
    n = 5000 if tier == 'quick' else 100000
    out = []
    for i in range(n):
        out.append(dict(seed=rng.randrange(1 << 30), layer='j1939-21' if i % 2 == 0 else 'j1939-22'))
    return out


def gen_frame(rng, fd):
    """-> (can_id, data, class label)"""
    sa = rng.choice([PEER, PEER, PEER, PEER, THIRD, SELF, 254, 255])
    da = rng.choice([SELF, SELF, SELF, SELF, SELF, 255, 0x44, PEER])
    prio = rng.randrange(8)
    pgn3 = rng.choice([b'\x00\xD0\x00', b'\x00\xD0\x00', b'\xF6\xFE\x00', bytes([rng.randrange(256) for _ in range(3)])])
    if not fd:
        pf = rng.choice([0xEC, 0xEC, 0xEC, 0xEB, 0xEB, 0xD0])
        if pf == 0xEC:
            cb = rng.choice([16, 16, 17, 17, 17, 19, 32, 255, rng.randrange(256)])
            f = lambda: rng.choice([0, 1, 2, 3, 4, 5, 9, 14, 254, 255, rng.randrange(256)])
            data = bytes([cb, f(), f(), f(), f()]) + pgn3
            data = data[:rng.choice([8, 8, 8, 8, 8, rng.randint(0, 8)])]
            label = 'cm%d' % (cb if cb in (16, 17, 19, 32, 255) else -1)
        elif pf == 0xEB:
            data = bytes([rng.choice([0, 1, 1, 2, 2, 3, 4, 5, 255])] + [rng.randrange(256) for _ in range(7)])
            data = data[:rng.choice([8, 8, 8, 8, rng.randint(0, 8)])]
            label = 'dt'
        else:
            data = bytes(rng.randrange(256) for _ in range(rng.randint(0, 8)))
            label = 'pf%02X' % pf
    else:
        pf = rng.choice([0x4D, 0x4D, 0x4D, 0x4E, 0x4E, 0x25, 0xEC, 0xEB, 0xD0])
        if pf == 0x4D:
            ct = rng.choice([0, 0, 1, 1, 1, 2, 2, 3, 4, 15, rng.randrange(16)])
            ses = rng.randrange(16) if rng.random() < 0.3 else rng.randrange(3)
            f = lambda: rng.choice([0, 1, 2, 3, 4, 5, 61, 120, 180, 200, 255, 0xFFFFFF, rng.randrange(1 << 24)])
            data = bytes([ct | (ses << 4)]) + C.le(f(), 3) + C.le(f(), 3) + bytes([rng.choice([0, 1, 2, 3, 255]), rng.choice([0, 1, 255])]) + pgn3
            L = rng.choice([12, 12, 12, 12, 12, 16, rng.randint(0, 12)])
            data = (data + b'\x00' * 8)[:L]
            label = 'fcm%d' % (ct if ct in (0, 1, 2, 3, 4, 15) else -1)
        elif pf == 0x4E:
            ses = rng.randrange(16) if rng.random() < 0.2 else rng.randrange(3)
            sn = rng.choice([0, 1, 1, 2, 2, 3, 4, 5, 0xFFFFFF])
            data = bytes([(ses << 4) | rng.choice([0, 0, 0, 1])]) + C.le(sn, 3) + bytes(rng.randrange(256) for _ in range(rng.choice([0, 1, 8, 20, 60, 60, 60])))
            label = 'fdt'
        elif pf == 0x25:
            data = bytes(rng.randrange(256) for _ in range(rng.choice([0, 3, 4, 5, 8, 12, 16, 48, 64])))
            if rng.random() < 0.5 and len(data) >= 4:
                # a plausible C-PG header with an inconsistent length byte
                data = bytes([0x40 | rng.randrange(4), rng.randrange(256), rng.randrange(256), rng.choice([0, 1, len(data) - 4, len(data), 255])]) + data[4:]
            label = 'mpg'
        else:
            data = bytes(rng.randrange(256) for _ in range(rng.choice([0, 3, 8, 8, 12, 64])))
            label = 'pf%02X' % pf
    can_id = C.make_id(prio, rng.choice([0, 0, 0, 1]), pf, da, sa)
    return can_id, data, label


class Reactive(ScriptNode):
    """hostile node that, besides its scripted frames, answers transport frames of the real stacks at once with a frame aimed at the very
    session they belong to (abort / CTS / end-of-message / data); with zero latency the answer is handled while the sender is still inside
    its send call - the moment a receive thread really gets to run"""

    def __init__(self, bus, name, rng, fd, p):
        super().__init__(bus, name)
        self.rng, self.fd, self.p = rng, fd, p
        self.reactions = 0
        self.depth = 0

    def on_frame(self, fr):
        if not self.p or self.depth or fr.src == self.name or not fr.ext or self.rng.random() >= self.p:
            return
        f = C.split_id(fr.can_id)
        rng = self.rng
        d = fr.data
        sa, da = f['sa'], f['ps']
        if da == 255:
            da = rng.choice([PEER, SELF, 255])
        out = None
        if not self.fd and f['pf'] in (C.PF_TP_CM, C.PF_TP_DT) and len(d) == 8:
            pgn = C.un_le(d[5:8]) if f['pf'] == C.PF_TP_CM else rng.choice([0xD000, 0xFEF6])
            kind = rng.choice(['abort', 'abort', 'cts', 'cts0', 'eom', 'dt', 'rts'])
            data = {'abort': C.tpcm_abort(rng.choice([1, 2, 3]), pgn), 'cts': C.tpcm_cts(rng.choice([1, 2, 255]), rng.choice([1, 2, 3, 255]), pgn),
                    'cts0': C.tpcm_cts(0, 255, pgn), 'eom': C.tpcm_eom(rng.choice([9, 20, 30]), rng.choice([2, 3, 5]), pgn),
                    'dt': C.tp_dt(rng.choice([1, 2, 3]), b'zzzzzzz'), 'rts': C.tpcm_rts(rng.choice([9, 20]), 255, pgn)}[kind]
            out = (C.make_id(7, 0, C.PF_TP_DT if kind == 'dt' else C.PF_TP_CM, sa, da), data)
        elif self.fd and f['pf'] in (C.PF_FD_TP_CM, C.PF_FD_TP_DT) and len(d) >= 4:
            ses = d[0] >> 4
            pgn = C.un_le(d[9:12]) if (f['pf'] == C.PF_FD_TP_CM and len(d) >= 12) else 0xD000
            kind = rng.choice(['abort', 'abort', 'cts', 'cts0', 'eoma', 'eoms', 'dt', 'rts'])
            data = {'abort': C.fdcm_abort(ses, 2, pgn), 'cts': C.fdcm_cts(ses, rng.choice([1, 2, 3, 4, 5]), rng.choice([1, 2, 255]), pgn),
                    'cts0': C.fdcm_cts(ses, 1, 0, pgn), 'eoma': C.fdcm_eoma(ses, rng.choice([61, 150, 240]), pgn),
                    'eoms': C.fdcm_eoms(ses, rng.choice([61, 150, 240]), pgn), 'dt': C.fd_dt(ses, rng.choice([1, 2, 3]), bytes(60)),
                    'rts': C.fdcm_rts(ses, rng.choice([61, 150]), 255, pgn)}[kind]
            out = (C.make_id(7, 0, C.PF_FD_TP_DT if kind == 'dt' else C.PF_FD_TP_CM, sa, da), data)
        if out is not None:
            self.reactions += 1
            self.depth += 1
            try:
                self.send(out[0], out[1], fd=self.fd)
            finally:
                self.depth -= 1


def run_case(case):
    rng = random.Random(case['seed'])
    layer = case['layer']
    fd = layer == 'j1939-22'
    zero = rng.choice([0.0, 0.0, 0.5, 1.0])
    react = rng.choice([0.0, 0.0, 0.3, 0.7])
    W = World(case['seed'], layer, (0.0001, 0.002), zero)
    sim = W.sim
    viol = M.Violations()
    wa, wb = rng.choice([1, 2, 255]), rng.choice([1, 2, 255])
    A = W.stack('A', max_cmdt_packets=wa)
    B = W.stack('B', max_cmdt_packets=wb)
    # an unrelated slow periodic application timer on both stacks in a third of the cases (its passes fall between a hostile frame and the
    # time-out of the session that frame opened)
    if random.Random(case['seed'] ^ 0xB7).random() < 0.33:
        A.ecu.add_timer(random.Random(case['seed'] ^ 0xB8).choice([0.4, 2.0, 3.0]), lambda cookie: True)
        B.ecu.add_timer(random.Random(case['seed'] ^ 0xB9).choice([0.7, 2.5]), lambda cookie: True)
    ca = W.ca(A, SELF, identity_number=1)
    cb = W.ca(B, PEER, identity_number=2)
    W.listen_ca(ca, 'A')
    W.listen_ca(cb, 'B')
    H = Reactive(W.bus, 'H', rng, fd, react)
    W.run(0.01)
    t = 0.02
    L = rng.randint(1, 60)
    labels = collections.Counter()
    own = []
    fed = [0]
    replay_run = bool(case.get('trace'))
    trace = []

    def feed(can_id, data, how):
        fed[0] += 1
        if replay_run:
            trace.append('%.6f feed %s %08X %s' % (sim.now, how, can_id, data.hex()))
        if how == 'bus':
            H.send(can_id, data, fd=fd)
        elif how == 'listener':
            fr = type('F', (), {})()
            from vt.bus import Frame
            A.on_frame(Frame(-1, sim.now, 'H', can_id, data, fd))
        else:
            try:
                A.ecu.notify(can_id, bytearray(data), sim.EPOCH + sim.now)
            except Exception:
                pass          # counted by StackNode.notify_exc; allowed by the property

    burst_left = 0
    burst_how = None
    if rng.random() < 0.12 and L >= 25:
        burst_at = rng.randrange(0, L - 20)
    else:
        burst_at = None
    for i in range(L):
        if burst_at is not None and i == burst_at:
            # a gap-0 burst of well-formed session-opening frames from many sources, fed in at one instant (no chance for the job thread to run in
            # between): announcements / requests-to-send that each create a session and ask the job thread to wake up
            burst_left = min(rng.randint(20, 48), L - i)
            burst_how = rng.choice(['listener', 'notify'])
        if burst_left > 0:
            burst_left -= 1
            k = burst_left
            sa_b = 0x40 + k
            if rng.random() < 0.6:
                cid = C.make_id(6, 0, C.PF_FD_TP_CM if fd else C.PF_TP_CM, 255, sa_b)
                dat = C.fdcm_bam(k % 4, 130, 0xFEF0) if fd else C.tpcm_bam(20, 0xFEF0)
                label = 'burst_bam'
            else:
                cid = C.make_id(6, 0, C.PF_FD_TP_CM if fd else C.PF_TP_CM, SELF, sa_b)
                dat = C.fdcm_rts(k % 8, 130, 255, 0xD000) if fd else C.tpcm_rts(20, 255, 0xD000)
                label = 'burst_rts'
            labels[label] += 1
            sim.at(t, feed, cid, dat, burst_how)
            continue
        if rng.random() < 0.5:
            t += rng.choice([0, 0, 0.001, 0.05, 0.3, 0.8, 1.3, 3.1])
        can_id, data, label = gen_frame(rng, fd)
        how = rng.choice(['bus', 'bus', 'listener', 'notify'])
        labels[label] += 1
        sim.at(t, feed, can_id, data, how)
        if rng.random() < 0.25:
            size = rng.choice([9, 20, 30]) if not fd else rng.choice([61, 150, 240])
            kind = rng.choice(['p2p', 'p2p', 'bam'])
            who = rng.choice(['A', 'A', 'B'])

            def snd(size=size, kind=kind, who=who):
                c, dst = (ca, PEER) if who == 'A' else (cb, SELF)
                rec = W.call('own', c.send_pgn, 0, 0xD0 if kind == 'p2p' else 0xFE, dst if kind == 'p2p' else 0xF6, 6, [1] * size)
                own.append((kind, who, rec['ret'], rec['exc']))
            sim.at(t + rng.choice([0, 0.0001, 0.003, 0.01]), snd)
    W.run(t + 0.05)
    H.p = 0.0            # the hostile node falls silent; what follows must work
    sessions_opened = 0
    for nd in (A, B):
        tb = nd.tables()
        sessions_opened += sum(v for v in tb.values() if v)
    t_quiet = sim.now
    # a hold CTS (0.5 s) may legitimately be followed by one more burst and the wait for its answer (T5 = 3 s): sessions are released within the
    # longest time-out of their own last activity, which can be up to 3.5 s after the last hostile frame
    W.run(t_quiet + 3.7)

    obs = dict(tables_not_observed=sum(1 for nd in (A, B) if all(v is None for k, v in nd.tables().items() if k != '_multi_pg_snd_buffer')), reactive_frames=H.reactions, zero_latency_cases=1 if zero else 0, frames_fed=fed[0], exceptions_contained=sum(A.notify_exc.values()) + sum(B.notify_exc.values()), sessions_opened=sessions_opened,
               followups_ok=0, probe_timers_ok=0, own_sends=len(own), own_send_raised=sum(1 for o in own if o[3]))
    # ---- oracle ---------------------------------------------------------------------------
    M.m_live(viol, W, layer)
    M.m_quiet(viol, W, layer, what='3.7 s after the last hostile frame')
    if W.bus.rx_exc:
        viol.add('listener_leaked_exception', 'exception escaped a MessageListener: %s' % (W.bus.rx_exc[0],), layer=layer)
    dead = bool(W.liveness_problems())
    if not dead:
        pa = M.probe_timer(W, A, 0.05)
        pb = M.probe_timer(W, B, 0.05)
        nA, nB = len(W.deliv['A']), len(W.deliv['B'])
        size = 40 if not fd else 150
        p1 = [rng.randrange(256) for _ in range(size)]
        p2 = [rng.randrange(256) for _ in range(size)]
        r = {}
        sim.at(sim.now + 0.1, lambda: r.update(ab=W.call('fol', ca.send_pgn, 0, 0xD1, PEER, 6, list(p1))))
        sim.at(sim.now + 0.1, lambda: r.update(ba=W.call('fol', cb.send_pgn, 0, 0xD2, SELF, 6, list(p2))))
        W.run(sim.now + 4.5)
        M.check_probe_timer(viol, pa, layer)
        M.check_probe_timer(viol, pb, layer)
        if not viol:
            obs['probe_timers_ok'] += 2
        for key, rec, pay, lst, n0, sa in (('A->B', r.get('ab'), p1, W.deliv['B'], nB, SELF), ('B->A', r.get('ba'), p2, W.deliv['A'], nA, PEER)):
            if rec is None or rec.get('ret') is not True:
                viol.add('followup_refused', 'follow-up %s after hostile traffic: send_pgn returned %r / raised %s'
                         % (key, rec and rec.get('ret'), rec and rec.get('exc')), layer=layer)
                continue
            okd = [d for d in lst[n0:] if d[4] == bytes(pay) and d[3] == sa]
            if len(okd) != 1:
                viol.add('followup_not_delivered', 'follow-up %s after hostile traffic delivered %d times' % (key, len(okd)), layer=layer)
            else:
                obs['followups_ok'] += 1
        M.m_live(viol, W, layer)
    sig = repr((layer, tuple(sorted(labels)), tuple(sorted(set(o[0] for o in own))), zero > 0, react > 0))
    sample = dict(case=dict(seed=case['seed'], layer=layer), frames=L, classes=dict(labels), own_sends=own[:6], contained_exceptions=dict(A.notify_exc),
                  exception_samples=A.notify_exc_samples[:3], sessions_open_at_end_of_sequence=sessions_opened)
    res = dict(violations=list(viol), inconclusive=None, sig=sig, nontrivial=A.rx_frames + fed[0] > 0, obs=obs, sample=sample)
    res['fingerprint'] = order_fingerprint(W.bus.frames)
    if replay_run:
        res['trace'] = trace + [f.brief() for f in W.bus.frames[:300]]
    W.close()
    return res
