"""C14 -- PGN requests reach exactly the addressed operational CAs; claims are answered (M-REQ)."""
import random
import collections

from vt.world import World
from vt import monitors as M
from vt.bus import ScriptNode
from ref import codec as C

PROPERTY = 'C14'
LEVEL = 'exploration'
RULE = ('a case = 1-2 responder stacks with 1-3 CAs each, every CA in one of the claim states not started / waiting for veto / operational by claim / '
        'operational by bypass / cannot-claim / moved after a loss, plus a requester stack with an operational CA and three without an address (never started, waiting for veto, cannot-claim after a loss); the '
        'requester sends send_request(0, pgn, destination) for requested PGNs on the boundaries of the 18-bit space (0, EE00, EA00, EEFF, FFFF, 10000, '
        '1EE00, 1FFFF, 3FFFF, each PF boundary, data page 0/1 of the requested PGN) and random ones, to every held address, the global address and '
        'unowned addresses; in an eighth of the cases a scripted requester reacts at once, on a zero-latency bus, to the very first address claim of a CA (its two requests are handled inside the send call of that claim, when the CA has just become operational); in another eighth 2-3 operational CAs on one stack get a global request, the application behind the first answers from inside its callback, and a scripted node reacts to that answer at once with a second global request that is handled while the first is still being dispatched (each CA must be told both with their own requester address and PGN); the address-less CA requests the address-claim PGN from SA 254; a scripted node sends an ordinary request from SA 254; '
        'oracle = request callbacks (1-2 subscribers per CA, plus one that was unsubscribed again) fired exactly at the operational CAs owning the destination (all for 255), once each per live subscriber, with (requester address, '
        'destination, requested PGN); a request for EE00 is answered by exactly those CAs with an address-claimed frame (PGN EE00 to 255, SA = held '
        'address, 8 NAME bytes), no callback; non-trivial = >= 1 callback and >= 1 claim answer expected; distinct = configuration')
ASSUMPTIONS = ['send_request is called with data_page=0 (the Request PG exists on page 0 only); the data page of the *requested* PGN is exercised',
               'expected sets come from the harness\'s own record of CA states']
MIN_OBS = {'requests_sent': {'quick': 20000, 'thorough': 400000}, 'callbacks_expected': {'quick': 10000, 'thorough': 200000},
           'claim_answers_expected': {'quick': 1500, 'thorough': 30000}, 'requests_to_unowned': {'quick': 3000, 'thorough': 60000},
           'reactive_cases': {'quick': 60, 'thorough': 2000}, 'nested_cases': {'quick': 60, 'thorough': 2000}}

CA_STATES = ['none', 'wait_veto', 'normal', 'bypass', 'cannot', 'moved']
BOUNDARY_PGNS = [0, 1, 0xFF, 0x100, 0xEA00, 0xEAFF, 0xEE00, 0xEEFF, 0xEE01, 0xEF00, 0xF000, 0xFECA, 0xFFFF, 0x10000, 0x1EE00, 0x1EA00, 0x1F000, 0x1FFFF,
                 0x20000, 0x2EE00, 0x3EE00, 0x3FFFF]


def cases(tier, seed):
    rng = random.Random(14000 + seed)
    n = 800 if tier == 'quick' else 30000
    out = []
    for i in range(n):
        stacks = []
        for s in range(rng.choice([1, 1, 2])):
            stacks.append([rng.choice(CA_STATES) for _ in range(rng.randint(1, 3))])
        if i < len(CA_STATES):
            stacks = [[CA_STATES[i]]]
        out.append(dict(stacks=stacks, seed=rng.randrange(1 << 30)))
    # a requester that reacts to the CA's very first address claim at once, on a zero-latency bus: its requests are handled inside the send call
    # of that claim (the CA is operational from the instant its claim for an address below 128 is on the bus)
    for i in range(n // 8):
        out.append(dict(stacks=[[rng.choice(['normal', 'cannot', 'moved'])]], react=True, seed=rng.randrange(1 << 30)))
    # a second request handled while the first is still being dispatched to the CAs of the stack
    for i in range(n // 8):
        out.append(dict(kind='nested', stacks=[], seed=rng.randrange(1 << 30)))
    return out


def run_nested(case):
    """2-3 operational CAs on one stack, zero-latency bus.  A global request for P1 reaches them one after the other; the application behind the
    FIRST one answers from inside its request callback with a frame, to which a scripted node reacts at once with a global request for P2 --
    handled by the stack while it is still in the middle of dispatching the first request.  Every CA must be told both requests with their own
    requester address, destination and PGN."""
    rng = random.Random(case['seed'])
    layer = 'j1939-21'
    W = World(case['seed'], layer, (0.00005, 0.0003), 1.0)
    sim = W.sim
    viol = M.Violations()
    tag = dict(layer=layer)
    node = W.stack('S0')
    n = rng.choice([2, 3])
    addrs = rng.sample(range(2, 120), n + 2)
    r_addr, q_addr = addrs[n], addrs[n + 1]
    P1 = rng.choice([0xFECA, 0xFEE5, 0x1F004, 0xEF00 | 0])
    P2 = rng.choice([0xFEDA, 0xFEB1, 0x0F000])
    cas = []
    calls = {}
    for i in range(n):
        ca = W.ca(node, addrs[i], name_value=C.name_value(identity_number=300 + i), bypass=True)
        calls[i] = []

        def cb(src, dst, pgn, i=i, ca=ca):
            calls[i].append((src, dst, pgn))
            if i == 0 and pgn == P1 and len([c for c in calls[0] if c[2] == P1]) == 1:
                ca.send_pgn(0, 0xFE, 0xCA, 6, [1, 2, 3, 4, 5, 6, 7, 8])          # the application answers from inside the callback
        ca.subscribe_request(cb)
        cas.append(ca)
    reacted = []

    class Reactor(ScriptNode):
        def on_frame(self, fr):
            idf = C.split_id(fr.can_id)
            if fr.src == 'S0' and idf['pf'] == 0xFE and idf['ps'] == 0xCA and not reacted:
                reacted.append(sim.now)
                self.send(C.make_id(6, 0, C.PF_REQUEST, 255, q_addr), C.request_payload(P2))
    Reactor(W.bus, 'Q')
    X = ScriptNode(W.bus, 'X')
    W.run(0.05)
    X.send(C.make_id(6, 0, C.PF_REQUEST, 255, r_addr), C.request_payload(P1))
    W.run(0.1)
    obs = dict(requests_sent=2, callbacks_expected=2 * n, claim_answers_expected=0, requests_to_unowned=0, reactive_cases=0, nested_cases=1)
    if not reacted:
        viol.add('reactive_setup', 'the answer sent from inside the request callback never reached the bus', **tag)
    for i in range(n):
        want = sorted([(r_addr, 255, P1), (q_addr, 255, P2)])
        if sorted(calls[i]) != want:
            viol.add('request_callbacks', 'CA %d of %d (address %d): a request for %05X from %d, and -- handled while that one was still being dispatched -- a request for %05X from %d: callbacks %s, expected %s'
                     % (i, n, addrs[i], P1, r_addr, P2, q_addr, calls[i], want), how='nested', **tag)
    M.m_live(viol, W, layer)
    res = dict(violations=list(viol), inconclusive=None, sig=repr(('nested', n)), nontrivial=True, obs=obs, sample=dict(case=case, calls={str(k): v for k, v in calls.items()}))
    W.close()
    return res


def run_case(case):
    if case.get('kind') == 'nested':
        return run_nested(case)
    rng = random.Random(case['seed'])
    layer = 'j1939-21'
    W = World(case['seed'], layer, (0.00005, 0.0003), 1.0 if case.get('react') else rng.choice([0.0, 0.0, 0.5]))
    sim = W.sim
    j = W.j1939
    ST = j.ControllerApplication.State
    viol = M.Violations()
    tag = dict(layer=layer)
    X = ScriptNode(W.bus, 'X')
    LOW = C.name_bytes(C.name_value(identity_number=1))
    used = set()

    def fresh(lo, hi):
        while True:
            a = rng.randrange(lo, hi)
            if not ({a - 1, a, a + 1} & used):
                used.add(a)
                return a
    cas = []          # dict(ca, node, want, pref, held, name, calls)
    for si, states in enumerate(case['stacks']):
        node = W.stack('S%d' % si)
        for ci, st in enumerate(states):
            aac = 1 if st == 'moved' else (0 if st == 'cannot' else rng.randrange(2))
            nv = C.name_value(identity_number=100 + 10 * si + ci, function=20 + ci, arbitrary_address_capable=aac)
            pref = fresh(130, 240) if st == 'wait_veto' else fresh(2, 120)
            if st in ('normal', 'bypass') and not ({0, 1} & used) and rng.random() < 0.15:
                pref = 0                      # address 0 is a legal (and falsy) address
                used.update((0, 1))
            if rng.random() < 0.2:
                # an application class that overrides the public message_acceptable() hook to receive every data message: requests are still
                # a matter of who owns the destination address
                class AcceptAll(j.ControllerApplication):
                    def message_acceptable(self, dest_address):
                        return True
                ca = AcceptAll(j.Name(value=nv), pref, st == 'bypass')
                node.ecu.add_ca(controller_application=ca)
            else:
                ca = W.ca(node, pref, name_value=nv, bypass=(st == 'bypass'))
            rec = dict(ca=ca, node=node, want=st, pref=pref, held=None, name=nv, calls=[], label='S%d.ca%d' % (si, ci))
            # one or two request subscribers; a third one is registered and removed again before any request arrives
            rec['nsubs'] = rng.choice([1, 1, 2])
            for k in range(rec['nsubs']):
                ca.subscribe_request(lambda src, dst, pgn, rec=rec: rec['calls'].append((sim.now, src, dst, pgn)))
            if rng.random() < 0.4:
                gone = lambda src, dst, pgn, rec=rec: rec['calls'].append((sim.now, 'removed-subscriber', dst, pgn))
                ca.subscribe_request(gone)
                ca.unsubscribe_request(gone)
            cas.append(rec)
            if st == 'wait_veto':
                sim.at(0.985, ca.start, 0.001)       # veto window 0.986 .. 1.236 covers the whole request phase (< 0.2 s)
            elif st in ('normal', 'cannot', 'moved'):
                sim.at(0.1, ca.start, 0.001)
                if st in ('cannot', 'moved'):
                    sim.at(0.4, X.send, C.make_id(6, 0, C.PF_ADDRESS_CLAIM, 255, pref), LOW)
    react = {}
    if case.get('react'):
        c0 = cas[0]
        q_addr = fresh(2, 120)

        class Reactor(ScriptNode):
            def on_frame(self, fr):
                idf = C.split_id(fr.can_id)
                if fr.src == 'S0' and idf['pf'] == C.PF_ADDRESS_CLAIM and idf['sa'] == c0['pref'] and not react:
                    react.update(t=sim.now, n0=len(W.bus.frames), state=c0['ca'].state, addr=c0['ca'].device_address)
                    self.send(C.make_id(6, 0, C.PF_REQUEST, 255, q_addr), C.request_payload(0xEE00))
                    self.send(C.make_id(6, 0, C.PF_REQUEST, c0['pref'], q_addr), C.request_payload(0xFECA))
                    react['n1'] = len(W.bus.frames)
                    react['calls'] = list(c0['calls'])
        Reactor(W.bus, 'Q')
    R = W.stack('R')
    r_addr = fresh(2, 120)
    req = W.ca(R, r_addr, name_value=C.name_value(identity_number=777), bypass=True)
    r2_pref = fresh(2, 120)
    req_noaddr = W.ca(R, r2_pref, name_value=C.name_value(identity_number=778), bypass=False)     # never started: no address
    # a requester that had an address and lost it (cannot-claim), and one that is still waiting for its veto time
    r3_pref = fresh(2, 120)
    req_cc = W.ca(R, r3_pref, name_value=C.name_value(identity_number=779, arbitrary_address_capable=0), bypass=False)
    sim.at(0.1, req_cc.start, 0.001)
    sim.at(0.4, X.send, C.make_id(6, 0, C.PF_ADDRESS_CLAIM, 255, r3_pref), LOW)
    r4_pref = fresh(130, 240)
    req_wv = W.ca(R, r4_pref, name_value=C.name_value(identity_number=780), bypass=False)
    sim.at(0.985, req_wv.start, 0.001)
    W.run(1.0)
    if case.get('react'):
        c0 = cas[0]
        if not react:
            viol.add('reactive_setup', 'the CA never put its initial claim for %d on the bus' % c0['pref'], **tag)
        else:
            # everything S0 emitted while the two reactive requests were being handled (re-entrantly, inside the send of the claim)
            ans = [f for f in W.bus.frames[react['n0']:react['n1']] if f.src == 'S0']
            want = [(c0['pref'], C.name_bytes(c0['name']))]
            got = [(C.split_id(f.can_id)['sa'], f.data) for f in ans if C.split_id(f.can_id)['pf'] == C.PF_ADDRESS_CLAIM]
            if got != want or len(ans) != len(got):
                viol.add('claim_answer', 'request for the address-claim PGN handled inside the send of the CA\'s initial claim for %d: answers %s, expected %s'
                         % (c0['pref'], [f.brief() for f in ans], [(a, b.hex()) for a, b in want]), how='reactive', **tag)
            exp = [(q_addr, c0['pref'], 0xFECA)] * c0['nsubs']
            gotc = [(a, b, p) for (t, a, b, p) in react.get('calls', [])]
            if gotc != exp:
                viol.add('request_callbacks', '%s: request FECA to %d handled inside the send of its initial claim -> callbacks %s, expected %s'
                         % (c0['label'], c0['pref'], gotc, exp), how='reactive', **tag)
            reactive_checked = 1
    if req_cc.state != ST.CANNOT_CLAIM or req_wv.state != ST.WAIT_VETO:
        W.close()
        return dict(violations=[], inconclusive='could not drive the address-less requesters into their states (%r, %r)' % (req_cc.state, req_wv.state),
                    sig='setup', nontrivial=False, obs={}, sample=None)
    noaddr_requesters = [req_noaddr, req_cc, req_wv]
    for c in cas:
        st = c['want']
        if st in ('normal', 'bypass'):
            c['held'] = c['pref']
        elif st == 'moved':
            c['held'] = c['pref'] + 1
        ok = {'none': c['ca'].state == ST.NONE, 'wait_veto': c['ca'].state == ST.WAIT_VETO, 'normal': c['ca'].state == ST.NORMAL,
              'bypass': c['ca'].state == ST.NORMAL, 'cannot': c['ca'].state == ST.CANNOT_CLAIM,
              # (the harness's own record decides where the CA is: it claimed pref + 1 on the bus after the loss and nobody contested it)
              'moved': c['ca'].state == ST.NORMAL and any(f.src == c['node'].name and C.split_id(f.can_id)['pf'] == C.PF_ADDRESS_CLAIM and (f.can_id & 0xFF) == c['pref'] + 1 for f in W.bus.frames)}[st]
        if not ok:
            W.close()
            return dict(violations=[], inconclusive='could not drive %s into state %s (is %r at %r)' % (c['label'], st, c['ca'].state, c['ca'].device_address),
                        sig='setup', nontrivial=False, obs={}, sample=None)
    held = {c['held']: c for c in cas if c['held'] is not None}
    obs = dict(requests_sent=0, callbacks_expected=0, claim_answers_expected=0, requests_to_unowned=0, reactive_cases=1 if react else 0)
    dests = sorted(held) + [255, 255, 254] + [c['pref'] for c in cas if c['held'] is None] + [fresh(2, 250) for _ in range(2)]     # 254: the null address is nobody's
    pgns = BOUNDARY_PGNS + [rng.randrange(1 << 18) for _ in range(10)] + [pf << 8 for pf in (0xEF, 0xF0, 0xEB, 0xEC)]

    def one_request(kind, pgn, d):
        """send one request and judge everything that happens until the bus is quiet again"""
        for c in cas:
            del c['calls'][:]
        n0 = len(W.bus.frames)
        if kind == 'ca':
            rec = W.call('send_request', req.send_request, 0, pgn, d)
            src = r_addr
        elif kind == 'noaddr':
            rec = W.call('send_request', noaddr_requesters[obs['requests_sent'] % 3].send_request, 0, pgn, d)
            src = 254
        else:
            X.send(C.make_id(6, 0, C.PF_REQUEST, d, 254), C.request_payload(pgn))
            rec = dict(exc=None)
            src = 254
        obs['requests_sent'] += 1
        if rec['exc']:
            viol.add('request_raised', 'send_request(%05X, %d) from %s raised %s' % (pgn, d, kind, rec['exc']), **tag)
            return
        W.run(sim.now + 0.001)
        targets = [c for c in cas if c['held'] is not None and (d == 255 or c['held'] == d)]
        if not targets:
            obs['requests_to_unowned'] += 1
        answers = [f for f in W.bus.frames[n0:] if f.src != 'R' and f.src != 'X']
        if pgn == 0xEE00:
            obs['claim_answers_expected'] += len(targets)
            want = sorted((c['held'], C.name_bytes(c['name'])) for c in targets)
            got = []
            for f in answers:
                idf = C.split_id(f.can_id)
                if idf['pf'] == C.PF_ADDRESS_CLAIM and idf['ps'] == 255:
                    got.append((idf['sa'], f.data))
                else:
                    viol.add('unexpected_answer', 'request for EE00 to %d answered with %s' % (d, f.brief()), **tag)
            if sorted(got) != want:
                viol.add('claim_answer', 'request for the address-claim PGN to %d (from SA %d): answers %s, expected %s'
                         % (d, src, [(a, b.hex()) for a, b in sorted(got)], [(a, b.hex()) for a, b in want]),
                         how='missing' if len(got) < len(want) else ('extra' if len(got) > len(want) else 'wrong'), **tag)
            for c in cas:
                if c['calls']:
                    viol.add('callback_for_claim_request', '%s request callback fired for the address-claim PGN' % c['label'], **tag)
        else:
            obs['callbacks_expected'] += sum(c['nsubs'] for c in targets)
            if answers:
                viol.add('unexpected_answer', 'request for %05X to %d produced %s' % (pgn, d, answers[0].brief()), **tag)
            for c in cas:
                exp = [(src, d, pgn)] * c['nsubs'] if c in targets else []
                got = [(a, b, p) for (t, a, b, p) in c['calls']]
                if got != exp:
                    viol.add('request_callbacks', '%s (state %s, holds %r): request %05X from %d to %d -> callbacks %s, expected %s'
                             % (c['label'], c['want'], c['held'], pgn, src, d, got, exp),
                             how='missing' if len(got) < len(exp) else ('extra' if len(got) > len(exp) else 'args'), **tag)

    if rng.random() < 0.4:
        # the requesting application is in the middle of a broadcast of its own (150 ms) while it sends its requests
        W.call('own_bam', req.send_pgn, 0, 0xFE, 0xF1, 6, [rng.randrange(256) for _ in range(20)])
    for d in dests:
        for pgn in rng.sample(pgns, 12) + [0xEE00, 0xFECA]:
            one_request('ca', pgn, d)
    for d in sorted(held)[:2] + [255, 255, 255]:
        one_request('noaddr', 0xEE00, d)
        one_request('script', rng.choice([0xFECA, 0x1F004, 0xEF00]), d)
    # the address-less CA must not be able to request anything else
    rec = W.call('send_request', req_noaddr.send_request, 0, 0xFECA, 255)
    if rec['exc'] is None:
        viol.add('request_without_address', 'a CA without an address could send a request for an ordinary PGN', **tag)
    if sim.now > 1.22:
        W.close()
        return dict(violations=[], inconclusive='request phase outlasted the veto window (%.3f)' % sim.now, sig='setup', nontrivial=False, obs={}, sample=None)
    M.m_live(viol, W, layer)
    sig = repr(tuple(tuple(s) for s in case['stacks']))
    sample = dict(case=case, held=sorted(held), requester=r_addr, destinations=dests[:8], requests=obs['requests_sent'])
    res = dict(violations=list(viol), inconclusive=None, sig=sig, nontrivial=obs['callbacks_expected'] > 0 and obs['claim_answers_expected'] > 0, obs=obs, sample=sample)
    W.close()
    return res
