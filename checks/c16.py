"""C16 -- diagnostic trouble codes and lamp states arrive exactly as sent (DM1, DTC, DM22)."""
import random
import itertools

from vt.world import World
from vt import monitors as M
from ref import codec as C
from ref import sniffer as SN

PROPERTY = 'C16'
LEVEL = 'exploration'
RULE = ('cases = (a) DM1 end to end: a sender CA with Dm1.start_send(callback, cycle) whose callback returns, per cycle, fresh lamp states and 1..400 '
        'trouble codes (first code tagged with the cycle number), Dm1 subscribers on 1-2 other stacks (plus a subscriber that was unsubscribed again), in 40 % of the cases a second independent DM1 sender on a third stack, either data link layer (single frame, BAM, '
        'FD Multi-PG <= 14 codes, FD BAM), SPN/FMI/OC on boundaries (0, 1, 0xFFFF, 0x10000, 0x7FFFF, 31, 127) and random, lamp combinations from all '
        '5^4, cycle times above the transfer time (in a quarter of the BAM cases below it: cycles may then be skipped but every DM1 that arrives must equal one supplied cycle, in order), stop_send after 2-5 cycles then 3 more cycle times of observation, in 40 % of the cases followed by a second start_send with another cycle time and a second stop_send; oracle: subscriber arguments '
        'equal what the callback returned for that cycle, in order; the DM1 payload reassembled from the bus by the independent sniffer equals the '
        'reference J1939-73 encoding; no DM1 frame after stop_send returned; (b) DTC codec: DTC(spn,fmi,oc).dtc and DTC(dtc=..) against the '
        'reference bit positions over boundary + random values; (c) DM22 requests (active / previously active) over boundary + random SPN/FMI: '
        'frame bytes equal the reference; non-trivial = >= 2 DM1 cycles compared / >= 100 codec values; distinct = case parameters')
ASSUMPTIONS = ['J1939-73 layouts as coded in ref.codec (SPN low 16 bits in bytes 1-2, SPN bits 18..16 in the three MSBs of byte 3, FMI five LSBs, '
               'CM bit + 7-bit OC in byte 4; lamp status/flash two bits per lamp, PL lowest)', 'lamp keys the callback omits are sent as OFF']
MIN_OBS = {'dm1_cycles_compared': {'quick': 500, 'thorough': 15000}, 'dtcs_compared': {'quick': 20000, 'thorough': 600000},
           'stop_observed': {'quick': 450, 'thorough': 7000}, 'overrun_cases': {'quick': 30, 'thorough': 500}, 'dm22_frames': {'quick': 2000, 'thorough': 60000}, 'dtc_codec_values': {'quick': 20000, 'thorough': 500000},
           'lamp_combinations_max': 1}

SPN_B = [0, 1, 0xFF, 0x100, 0xFFFF, 0x10000, 0x1FFFF, 0x20000, 0x3FFFF, 0x40000, 0x7FFFF, 0x7ABCD, 0x54321]
FMI_B = [0, 1, 15, 16, 30, 31]
OC_B = [0, 1, 63, 64, 126, 127]


def cases(tier, seed):
    rng = random.Random(16000 + seed)
    out = []
    n = 500 if tier == 'quick' else 8000
    combos = list(itertools.product(range(5), repeat=4))
    rng.shuffle(combos)
    for i in range(n):
        layer = 'j1939-21' if i % 2 == 0 else 'j1939-22'
        cls = rng.choice(['one', 'few', 'mpg', 'many', 'max'])
        if cls == 'one':
            nd = 1
        elif cls == 'few':
            nd = rng.randint(2, 6)
        elif cls == 'mpg':
            nd = rng.choice([13, 14, 15])
        elif cls == 'many':
            nd = rng.randint(16, 120)
        else:
            # up to what a transport message holds: 445 codes = 1782 bytes on J1939-21; J1939-22 has no such limit in practice
            nd = rng.choice([400, 399, 200, 445, 444]) if layer == 'j1939-21' else rng.choice([400, 200, 445, 900])
        out.append(dict(kind='dm1', layer=layer, ndtc=nd, vary=rng.random() < 0.5, lamps=[list(combos[(i * 5 + k) % len(combos)]) for k in range(5)],
                        seed=rng.randrange(1 << 30)))
    for i in range(4 if tier == 'quick' else 32):
        out.append(dict(kind='dtc_codec', n=6000 if tier == 'quick' else 16000, seed=rng.randrange(1 << 30)))
    for i in range(8 if tier == 'quick' else 64):
        out.append(dict(kind='dm22', layer='j1939-21' if i % 2 == 0 else 'j1939-22', n=300 if tier == 'quick' else 1000, seed=rng.randrange(1 << 30)))
    return out


def run_case(case):
    if case['kind'] == 'dm1':
        return run_dm1(case)
    if case['kind'] == 'dtc_codec':
        return run_dtc(case)
    return run_dm22(case)


def rnd_dtc(rng):
    return dict(spn=rng.choice([rng.choice(SPN_B), rng.randrange(1 << 19)]), fmi=rng.choice([rng.choice(FMI_B), rng.randrange(32)]),
                oc=rng.choice([rng.choice(OC_B), rng.randrange(128)]))


def run_dm1(case):
    rng = random.Random(case['seed'])
    layer = case['layer']
    fd = layer == 'j1939-22'
    W = World(case['seed'], layer, (0.0001, 0.002))
    sim = W.sim
    j = W.j1939
    viol = M.Violations()
    tag = dict(layer=layer)
    S = W.stack('S')
    s_addr = rng.randrange(2, 120) if rng.random() > 0.1 else 0          # address 0 is a legal (and falsy) address
    sca = W.ca(S, s_addr, identity_number=1)
    nrx = rng.choice([1, 2])
    got = {}
    noaddr_rx = random.Random(case['seed'] ^ 0xA0).random() < 0.3
    for i in range(nrx):
        R = W.stack('R%d' % i)
        # DM1 is a broadcast: a subscriber gets it whether or not its CA holds an address (in some cases the first receiver's CA is never started)
        if i == 0 and noaddr_rx:
            rca = W.ca(R, 0x80 + i, identity_number=10 + i, bypass=False)
        else:
            rca = W.ca(R, 0x80 + i, identity_number=10 + i)
        d = j.Dm1(rca)
        got[i] = []
        d.subscribe(lambda sa, lamps, dtcs, ts, i=i: got[i].append((sim.now, sa, dict(lamps), [dict(x) for x in dtcs])))
        if rng.random() < 0.4:
            # a subscriber that is removed again before anything is sent must never be called
            ghost = lambda sa, lamps, dtcs, ts, i=i: got[i].append((sim.now, 'removed-subscriber', {}, []))
            d.subscribe(ghost)
            d.unsubscribe(ghost)
    # a second, independent DM1 sender on another stack (its own address, codes and cycle) in some cases
    sent2 = []
    s2_addr = None
    if rng.random() < 0.4:
        S2 = W.stack('S2')
        s2_addr = 121 + rng.randrange(6)          # the first sender's address is below 120
        sca2 = W.ca(S2, s2_addr, identity_number=2)
        n2 = rng.choice([1, 1, 3])

        def cb2():
            dt = [rnd_dtc(rng) for _ in range(n2)]
            dt[0]['oc'] = (len(sent2) + 1) & 0x7F
            lm = {'pl': rng.randrange(5), 'mil': rng.randrange(5), 'awl': 0, 'rsl': 0}
            sent2.append((sim.now, dict(lm), [dict(x) for x in dt]))
            return dict(lm), [dict(x) for x in dt]
        j.Dm1(sca2).start_send(cb2, rng.choice([0.17, 0.33, 1.1]))     # longer than its own transfer (<= 2 BAM packets)
    W.run(0.01)
    nd = case['ndtc']
    size = 2 + 4 * nd
    if fd:
        dur = 0.0 if size <= 60 else ((size + 59) // 60 + 2) * 0.0102
    else:
        dur = 0.0 if size <= 8 else ((size + 6) // 7 + 1) * 0.0502
    cycle = round(dur + rng.choice([0.05, 0.1, 0.3, 1.0]), 3)
    ncycles = rng.randint(2, 5)
    # overrun: the cycle time is shorter than the transfer, so a cycle comes due while the previous DM1 is still on its way.  The stack may then
    # skip cycles (one BAM per source at a time), but whatever arrives must still be exactly what the callback supplied for ONE cycle, in order
    overrun = dur > 0.2 and rng.random() < 0.25
    if overrun:
        cycle = max(0.03, round(dur * rng.choice([0.3, 0.6, 0.9]), 3))
        ncycles = rng.randint(3, 6)
    sent = []
    keys = ['pl', 'awl', 'rsl', 'mil']
    stop_inside = (not overrun) and random.Random(case['seed'] ^ 0x570).random() < 0.25
    stopped = {}

    def cb():
        k = len(sent)
        lamps_in = case['lamps'][k % len(case['lamps'])]
        lamps = {}
        for key, v in zip(keys, lamps_in):
            if not (v == 0 and rng.random() < 0.3):          # sometimes omit an OFF lamp
                lamps[key] = v
        n = nd if not case['vary'] else max(1, nd - (k % 3))
        dtcs = [rnd_dtc(rng) for _ in range(n)]
        dtcs[0]['oc'] = (k + 1) & 0x7F                       # cycle tag
        if rng.random() < 0.3 and n > 1:
            dtcs[1].pop('oc')                                # optional argument omitted -> 0
        exp_l = {key: v for key, v in zip(keys, lamps_in)}
        exp_d = [dict(spn=x['spn'], fmi=x['fmi'], oc=x.get('oc', 0)) for x in dtcs]
        sent.append((sim.now, exp_l, exp_d))
        if stop_inside and len(sent) == ncycles and 'cycles' not in stopped:
            # the application stops the cycle from inside its own data callback (the DM1 of this cycle may still go out, nothing after it)
            try:
                dm1.stop_send(cb)
                stopped['exc'] = None
            except Exception as e:
                stopped['exc'] = repr(e)
            stopped['t'] = sim.now
            stopped['cycles'] = len(sent)
            stopped['inside'] = True
        return dict(lamps), [dict(x) for x in dtcs]
    dm1 = j.Dm1(sca)
    t0 = 0.02
    sim.at(t0, dm1.start_send, cb, cycle)
    # in some cases the application starts the same Dm1 object a second time with another cycle time (two timers on one callback): one
    # stop_send ends both
    double_start = (not overrun) and random.Random(case['seed'] ^ 0xD5).random() < 0.12
    if double_start:
        sim.at(t0 + 0.001, dm1.start_send, cb, round(cycle * 1.37, 3))
    # the sending application also broadcasts another long parameter group now and then, possibly while a DM1 is on its way (J1939-21 allows
    # one broadcast per source at a time: the stack may refuse it, but a DM1 it has begun must arrive as supplied)
    other_tx = []
    if random.Random(case['seed'] ^ 0xB0).random() < 0.3 and not overrun:
        orng = random.Random(case['seed'] ^ 0xB1)

        def other():
            if 'cycles' in stopped:
                return
            pay = [0xE3] + [orng.randrange(256) for _ in range(19 if not fd else 79)]
            rec = W.call('other_broadcast', sca.send_pgn, 0, 0xFE, 0xE3, 6, list(pay))
            other_tx.append((sim.now, rec['ret'], bytes(pay)))
            sim.after(cycle * orng.choice([0.37, 0.61, 1.13]), other)
        sim.at(t0 + 0.011, other)
    t_stop = t0 + cycle * ncycles + cycle * 0.5

    def stop():
        if 'cycles' in stopped:
            return
        rec = W.call('stop_send', dm1.stop_send, cb)
        stopped['t'] = sim.now
        stopped['exc'] = rec['exc']
        stopped['cycles'] = len(sent)
    sim.at(t_stop, stop)
    t_end = t_stop + 3 * cycle + dur + 0.05
    # a second start / stop on the same Dm1 object with another cycle time (history of start_send / stop_send)
    restart = {}
    if rng.random() < 0.4:
        cycle2 = round(dur + rng.choice([0.04, 0.15, 0.6]), 3)
        n2c = rng.randint(1, 3)
        t_start2 = t_end
        t_stop2 = t_start2 + cycle2 * n2c + cycle2 * 0.5

        def start2():
            restart['n_before'] = len(sent)
            restart['t_start'] = sim.now
            dm1.start_send(cb, cycle2)

        def stop2():
            rec = W.call('stop_send', dm1.stop_send, cb)
            restart['t_stop'] = sim.now
            restart['n_at_stop'] = len(sent)
            restart['exc'] = rec['exc']
        sim.at(t_start2, start2)
        sim.at(t_stop2, stop2)
        t_end = t_stop2 + 3 * cycle2 + dur + 0.05
        restart.update(cycle=cycle2, n=n2c)
    W.run(t_end)
    # a DM1 cycle that comes due while another broadcast of the same source is running may be skipped on J1939-21 (as in the overrun cases):
    # what arrives must equal exactly one supplied cycle, in order
    relaxed = overrun or (bool(other_tx) and not fd) or double_start
    obs = dict(double_start_cases=0, other_broadcasts=0, receiver_without_address=0, stopped_inside_callback=0, dm1_cycles_compared=0, dtcs_compared=0, stop_observed=0, overrun_cases=0, dm22_frames=0, dtc_codec_values=0, lamp_combinations_max=len(set(tuple(x) for x in case['lamps'])))
    M.m_live(viol, W, layer)
    if stopped.get('exc'):
        viol.add('stop_raised', 'stop_send raised %s' % stopped['exc'], **tag)
    # 1. nothing after stop_send returned (cycles begun before are allowed to finish their transfer)
    n_at_stop = stopped.get('cycles', 0)
    if restart:
        # between the first stop and the second start nothing may be sent; the second phase sends again and stops again
        if restart.get('n_before', n_at_stop) != n_at_stop:
            viol.add('dm1_after_stop', 'the DM1 callback ran %d time(s) between stop_send (%.3f) and the next start_send' % (restart['n_before'] - n_at_stop, stopped.get('t', -1)), **tag)
        got2 = restart.get('n_at_stop', 0) - restart.get('n_before', 0)
        if got2 not in (restart['n'], restart['n'] + 1):
            viol.add('dm1_cycle_count', 'after the second start_send (cycle %.3f) %d DM1 cycles ran in %d cycle times' % (restart['cycle'], got2, restart['n']), phase=2, **tag)
        if len(sent) > restart.get('n_at_stop', len(sent)):
            viol.add('dm1_after_stop', 'the DM1 callback ran %d more time(s) after the second stop_send' % (len(sent) - restart['n_at_stop']), phase=2, **tag)
        else:
            obs['stop_observed'] += 1
    elif len(sent) > n_at_stop:
        viol.add('dm1_after_stop', 'the DM1 callback ran %d more time(s) after stop_send returned at %.3f (cycle %.3f s)' % (len(sent) - n_at_stop, stopped.get('t', -1), cycle), **tag)
    else:
        obs['stop_observed'] += 1
    obs['stopped_inside_callback'] = 1 if stopped.get('inside') else 0
    obs['other_broadcasts'] = len(other_tx)
    obs['receiver_without_address'] = 1 if noaddr_rx else 0
    obs['double_start_cases'] = 1 if double_start else 0
    if double_start:
        pass          # two timers: the number of cycles is not the point, the end is
    elif n_at_stop not in (ncycles, ncycles + 1):          # the first DM1 may go out at start_send or one cycle later
        viol.add('dm1_cycle_count', '%d DM1 cycles ran in %d cycle times before stop_send' % (n_at_stop, ncycles), **tag)
    # 2. subscribers got every cycle exactly, in order
    for i in range(nrx):
        other = [r for r in got[i] if r[1] != s_addr]
        # notifications from the second sender: each equals what it supplied, in order
        for k, r in enumerate(other):
            if r[1] != s2_addr or k >= len(sent2) or r[2] != sent2[k][1] or r[3] != sent2[k][2]:
                viol.add('dm1_other_sender', 'subscriber %d: notification #%d from SA %r does not match what the second sender (SA %r) supplied' % (i, k, r[1], s2_addr), **tag)
                break
        if s2_addr is not None and len(other) < len(sent2) - 1:
            viol.add('dm1_other_sender', 'subscriber %d got %d of %d DM1 of the second sender' % (i, len(other), len(sent2)), how='missing', **tag)
        rec = [r for r in got[i] if r[1] == s_addr]
        if relaxed:
            obs['overrun_cases'] = 1 if overrun else 0
            idx = 0
            used_k = set()
            for r in rec:
                # (two timers: overlapping cycles of one callback, on J1939-22 even concurrent broadcast sessions of which a shorter later one may finish
                #  first -- any order then, each supplied cycle at most once)
                lo_k = 0 if double_start else idx
                k = next((k for k in range(lo_k, len(sent)) if k not in used_k and (r[2], r[3]) == (sent[k][1], sent[k][2])), None)
                obs['dm1_cycles_compared'] += 1
                obs['dtcs_compared'] += len(r[3])
                if k is None:
                    tagv = r[3][0]['oc'] if r[3] else None
                    viol.add('dm1_dtcs', 'overrun (cycle %.3f s < transfer %.3f s): subscriber %d got a DM1 (%d codes, first code tagged cycle %s) that equals no cycle the callback supplied from #%d on'
                             % (cycle, dur, i, len(r[3]), tagv, idx), how='mixed', **tag)
                    break
                idx = k + 1
                used_k.add(k)
            if sent and not rec and overrun:          # (with other broadcasts every one of a few cycles may legitimately have been refused)
                viol.add('dm1_delivery_count', 'overrun: subscriber %d got no DM1 at all for %d cycles' % (i, len(sent)), how='missing', **tag)
            continue
        if stopped.get('inside') and not restart and len(rec) == len(sent) - 1:
            pass          # the DM1 of the cycle whose callback called stop_send was not sent any more: also fine
        elif len(rec) != len(sent):
            viol.add('dm1_delivery_count', 'subscriber %d got %d DM1 notifications for %d cycles (ndtc %d)' % (i, len(rec), len(sent), nd),
                     how='missing' if len(rec) < len(sent) else 'extra', **tag)
        for k, (r, s) in enumerate(zip(rec, sent)):
            t, sa, lamps, dtcs = r
            obs['dm1_cycles_compared'] += 1
            obs['dtcs_compared'] += len(s[2])
            if sa != s_addr:
                viol.add('dm1_sa', 'subscriber got SA %r, sender is %d' % (sa, s_addr), **tag)
            if lamps != s[1]:
                viol.add('dm1_lamps', 'cycle %d: subscriber got lamps %s, callback supplied %s' % (k, lamps, s[1]), **tag)
            if dtcs != s[2]:
                bad = [x for x in range(min(len(dtcs), len(s[2]))) if dtcs[x] != s[2][x]]
                viol.add('dm1_dtcs', 'cycle %d: subscriber got %d codes, callback supplied %d; first difference at #%s: got %s sent %s'
                         % (k, len(dtcs), len(s[2]), bad[:1], dtcs[bad[0]] if bad else None, s[2][bad[0]] if bad else None),
                         how='count' if len(dtcs) != len(s[2]) else 'value', **tag)
    # 3. the payload on the bus equals the reference encoding
    sn = SN.sniff(layer, [f for f in W.bus.frames if f.src == 'S'])
    wire = []
    if fd:
        for (t, src, idf, grps, problems, fr) in sn.mpg:
            for (tos, tf, cpgn, payload) in grps:
                if cpgn == C.PGN_DM1:
                    wire.append((t, payload))
    else:
        for (t, src, idf, data, fr) in sn.single:
            if idf['pgn'] == C.PGN_DM1:
                wire.append((t, data))
    for s in sn.sessions:
        if s.pgn == C.PGN_DM1:
            wire.append((s.t_open, s.payload()))
    wire.sort(key=lambda x: x[0])
    if relaxed:
        idx = 0
        encs = [C.dm1_payload(s[1], s[2]) for s in sent]
        used_w = set()
        for (t, payload) in wire:
            k = next((k for k in range(0 if double_start else idx, len(encs)) if k not in used_w and encs[k] == payload), None)
            if k is None:
                viol.add('dm1_wire', 'overrun (cycle %.3f s < transfer %.3f s): the DM1 that started on the bus at %.3f (%s) is the J1939-73 encoding of no cycle the callback supplied from #%d on'
                         % (cycle, dur, t, 'incomplete' if payload is None else '%d bytes' % len(payload), idx), how='mixed', **tag)
                break
            idx = k + 1
            used_w.add(k)
        wire = []
    elif stopped.get('inside') and not restart and len(wire) == len(sent) - 1:
        pass
    elif len(wire) != len(sent):
        viol.add('dm1_wire_count', '%d DM1 messages on the bus for %d cycles' % (len(wire), len(sent)), **tag)
    for k, ((t, payload), s) in enumerate(zip(wire, sent)):
        want = C.dm1_payload(s[1], s[2])
        if payload != want:
            if payload is None:
                viol.add('dm1_wire', 'cycle %d: DM1 transport session incomplete on the bus' % k, how='incomplete', **tag)
            else:
                i = next((x for x in range(min(len(payload), len(want))) if payload[x] != want[x]), min(len(payload), len(want)))
                viol.add('dm1_wire', 'cycle %d: DM1 payload on the bus differs from the J1939-73 encoding at byte %d (len %d vs %d): %s vs %s'
                         % (k, i, len(payload), len(want), payload[max(0, i - 2):i + 4].hex(), want[max(0, i - 2):i + 4].hex()),
                         how='lamps' if i < 2 else 'dtc', **tag)
    for p in sn.problems:
        viol.add('dm1_transport_format', '%s: %s' % (p[0], p[2]), **tag)
    sig = repr((layer, 'n%d' % (nd if nd < 16 else (100 if nd < 200 else 400)), nrx, case['vary']))
    sample = dict(case=dict(layer=layer, ndtc=nd, cycle=cycle, cycles=ncycles, subscribers=nrx), first_cycle=dict(lamps=sent[0][1], dtcs=sent[0][2][:3]) if sent else None,
                  wire=[(round(t, 3), (p or b'')[:10].hex()) for t, p in wire[:4]], stop_at=stopped.get('t'))
    res = dict(violations=list(viol), inconclusive=None, sig=sig, nontrivial=obs['dm1_cycles_compared'] >= 2, obs=obs, sample=sample)
    if case.get('trace'):
        res['trace'] = [f.brief() for f in W.bus.frames[:200]]
    W.close()
    return res


def run_dtc(case):
    from vt.world import load_j1939
    j = load_j1939()
    rng = random.Random(case['seed'])
    viol = M.Violations()
    tag = dict(layer='codec')
    obs = dict(dm1_cycles_compared=0, dtcs_compared=0, stop_observed=0, overrun_cases=0, dm22_frames=0, dtc_codec_values=0)
    vals = [(s, f, o) for s in SPN_B for f in FMI_B for o in OC_B]
    vals += [(rng.randrange(1 << 19), rng.randrange(32), rng.randrange(128)) for _ in range(case['n'])]
    for (spn, fmi, oc) in vals:
        d = j.DTC(spn=spn, fmi=fmi, oc=oc)
        want = C.un_le(C.dtc_bytes(spn, fmi, oc))
        obs['dtc_codec_values'] += 1
        if d.dtc != want:
            viol.add('dtc_encode', 'DTC(spn=%#x, fmi=%d, oc=%d).dtc == %08X, J1939-73 gives %08X' % (spn, fmi, oc, d.dtc, want), **tag)
            continue
        e = j.DTC(dtc=want)
        if (e.spn, e.fmi, e.oc, e.cm) != (spn, fmi, oc, 0):
            viol.add('dtc_decode', 'DTC(dtc=%08X) -> spn %#x fmi %d oc %d cm %d, expected %#x %d %d 0' % (want, e.spn, e.fmi, e.oc, e.cm, spn, fmi, oc), **tag)
    return dict(violations=list(viol), inconclusive=None, sig=repr(('dtc', case['seed'])), nontrivial=True, obs=obs, sample=dict(case=case, example=vals[-1]))


def run_dm22(case):
    rng = random.Random(case['seed'])
    layer = case['layer']
    fd = layer == 'j1939-22'
    W = World(case['seed'], layer, (0.0001, 0.001))
    j = W.j1939
    viol = M.Violations()
    tag = dict(layer=layer)
    S = W.stack('S')
    sa = rng.randrange(2, 120)
    ca = W.ca(S, sa, identity_number=1)
    dm22 = j.Dm22(ca)
    obs = dict(dm1_cycles_compared=0, dtcs_compared=0, stop_observed=0, overrun_cases=0, dm22_frames=0, dtc_codec_values=0)
    vals = [(s, f) for s in SPN_B for f in FMI_B] + [(rng.randrange(1 << 19), rng.randrange(32)) for _ in range(case['n'])]
    last = None
    for (spn, fmi) in vals:
        dest = rng.randrange(0, 254)
        act = rng.random() < 0.5
        n0 = len(W.bus.frames)
        rec = W.call('dm22', dm22.request_clear_act_dtc if act else dm22.request_clear_pa_dtc, dest, spn, fmi)
        fr = W.bus.frames[n0:]
        if rec['exc'] or len(fr) != 1:
            viol.add('dm22_send', 'DM22 request raised %s / emitted %d frames' % (rec['exc'], len(fr)), **tag)
            continue
        obs['dm22_frames'] += 1
        want = C.dm22_payload(17 if act else 1, spn, fmi)
        f = fr[0]
        idf = C.split_id(f.can_id)
        if fd:
            g, pr = C.parse_mpg(f.data)
            ok_id = idf['pf'] == C.PF_MULTI_PG and idf['ps'] == dest and idf['sa'] == sa and len(g) == 1 and g[0][2] == 0xC300
            data = g[0][3] if g else b''
        else:
            ok_id = idf['pf'] == C.PF_DM22 and idf['ps'] == dest and idf['sa'] == sa
            data = f.data
        if not ok_id:
            viol.add('dm22_addressing', 'DM22 request to %d from %d went out as %s' % (dest, sa, f.brief()), **tag)
        if data != want:
            i = next((x for x in range(min(len(data), len(want))) if data[x] != want[x]), 0)
            viol.add('dm22_bytes', 'DM22 %s request spn=%#x fmi=%d: data %s, J1939-73 gives %s' % ('active' if act else 'previously active', spn, fmi, data.hex(), want.hex()),
                     byte=i, **tag)
        last = (spn, fmi, data.hex())
    W.close()
    return dict(violations=list(viol), inconclusive=None, sig=repr(('dm22', layer, case['seed'])), nontrivial=True, obs=obs, sample=dict(case=case, example=last))
