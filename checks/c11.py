"""C11 -- FD Multi-PG packing preserves every group and honours frame and time limits."""
import random
import collections

from vt.world import World
from vt import monitors as M
from vt.bus import order_fingerprint
from ref import codec as C
from ref import sniffer as SN

PROPERTY = 'C11'
LEVEL = 'exploration'
SLACK = 0.002
RULE = ('cases = seeded random sequences of 1..12 send_pgn calls on a J1939-22 stack (lengths 1..60 with emphasis on 1,55,56,57,60 and fill-level '
        'edges; PDU1 PGNs to 1-3 destinations incl. 255 and PDU2 PGNs; time_limit 0 or 1..200 ms; FEFF end to end to two receiving stacks, FBFF '
        'broadcast decoded by the reference decoder only; 1-2 sending CAs; submitted by the application or from inside a timer callback; job thread '
        'idle (sleeping up to 5 s), or kept busy by an unrelated 1 ms / 100 ms timer; in a quarter of the cases the job thread is pre-empted at random source lines for 0.2..2 ms while the application goes on submitting, with extra "chaser" groups for the same destination submitted right when an earlier group comes due); oracle = every Multi-PG frame decoded by the independent '
        'decoder: <=64 bytes, legal FD length, decodes to exactly submitted groups of one (format, SA, DA), each group in exactly one frame, on '
        'the bus <= submission + time_limit + 2 ms, plus M-DELIV at the receivers; non-trivial = >=2 groups checked; distinct = multiset of '
        '(destination class, limit class, format) + submitter + background')
ASSUMPTIONS = ['scheduling latency = engine wake-up jitter (slack 2 ms) plus, in the pre-empted cases, the injected holds of the job thread between submission and frame', 'priority of the combined frame is not judged',
               'padding after a TOS=0 header or a tail shorter than a C-PG header is skipped by a decoder (reference is lenient about padding bytes)']
MIN_OBS = {'groups_checked': {'quick': 2500, 'thorough': 80000}, 'groups_time_limited': {'quick': 800, 'thorough': 20000},
           'frames_with_several_groups': {'quick': 100, 'thorough': 3000}, 'fbff_frames': {'quick': 30, 'thorough': 500},
           'deliveries_compared': {'quick': 3000, 'thorough': 80000}, 'preempted_cases': {'quick': 100, 'thorough': 3000},
           'preemption_holds': {'quick': 2000, 'thorough': 60000}, 'chasers': {'quick': 100, 'thorough': 3000}}


def cases(tier, seed):
    rng = random.Random(11000 + seed)
    n = 600 if tier == 'quick' else 20000
    return [dict(seed=rng.randrange(1 << 30)) for _ in range(n)]


def run_case(case):
    rng = random.Random(case['seed'])
    layer = 'j1939-22'
    W = World(case['seed'], layer, rng.choice([(1e-5, 0.0003), (1e-5, 0.005)]))
    sim = W.sim
    viol = M.Violations()
    # in a quarter of the cases the job thread of the sender is pre-empted at random source lines (held 0.2..2 ms) while the application goes on
    # submitting: a group may then arrive while the job thread is part-way through flushing the buffer it would join
    prng = random.Random(case['seed'] ^ 0xC11)
    pre = prng.random() < 0.25
    holds_n = [0]
    hold_log = []
    if pre:
        from vt import preempt as PRE
        sim.trace_hook = PRE.random_tracer(sim, case['seed'] ^ 0xC11C11, p=0.03, holds=(0.0002, 0.001, 0.002), counter=holds_n, max_holds=60, log=hold_log)
    prng0 = random.Random(case['seed'] ^ 0xADD0)
    A = W.stack('A')
    sim.trace_hook = None
    B = W.stack('B')
    Cn = W.stack('C')
    a_addrs = rng.sample(range(1, 200), 2)
    b_addr, c_addr = rng.sample(range(200, 254), 2)
    if prng0.random() < 0.2:
        b_addr = 0                    # destination address 0 is a legal (and falsy) address
    nsend = rng.choice([1, 1, 2])
    senders = [W.ca(A, a_addrs[i], identity_number=10 + i) for i in range(nsend)]
    cb_ = W.ca(B, b_addr, identity_number=2)
    cc_ = W.ca(Cn, c_addr, identity_number=3)
    W.listen_ca(cb_, ('ca', 'B'))
    W.listen_ecu(B, ('ecu', 'B'))
    W.listen_ca(cc_, ('ca', 'C'))
    W.listen_ecu(Cn, ('ecu', 'C'))
    owner = {b_addr: 'B', c_addr: 'C'}
    background = rng.choice(['idle', 'idle', 'idle', '1ms', '100ms'])
    if background != 'idle':
        A.ecu.add_timer(0.001 if background == '1ms' else 0.1, lambda c: True)
    W.run(0.01)

    nmsg = rng.randint(1, 12)
    dests = rng.sample([b_addr, c_addr, 255], rng.randint(1, 3))
    limit_style = rng.choice(['zero', 'one', 'mixed', 'mixed'])
    one_limit = rng.choice([0.001, 0.005, 0.02, 0.05, 0.1, 0.2])
    submit_from = rng.choice(['app', 'app', 'timer'])
    groups = []
    t = 0.02 + rng.choice([0.0, 0.3, 2.5, 4.99, 4.999])     # relative to the 5 s idle sleep that began ~0.01
    for k in range(nmsg):
        L = rng.choice([rng.randint(1, 60), rng.choice([1, 2, 8, 9, 24, 28, 55, 56, 57, 59, 60]), rng.randint(1, 20)])
        fmt = 'FBFF' if rng.random() < 0.12 else 'FEFF'
        if rng.random() < 0.3 or fmt == 'FBFF':
            pf = rng.randrange(240, 256)
            ps = rng.randrange(256)
            da = 255
            if fmt == 'FBFF' and rng.random() < 0.3:
                pf = rng.randrange(0, 240)
                while pf in (0x25, 0x4D, 0x4E, 0xEA, 0xEE, 0xEB, 0xEC):
                    pf = rng.randrange(0, 240)
                ps = 255
        else:
            pf = rng.randrange(0, 240)
            while pf in (0x25, 0x4D, 0x4E, 0xEA, 0xEE, 0xEB, 0xEC):
                pf = rng.randrange(0, 240)
            da = rng.choice(dests)
            ps = da
        if limit_style == 'zero':
            lim = 0
        elif limit_style == 'one':
            lim = one_limit
        else:
            lim = rng.choice([0, 0.001, 0.003, 0.01, 0.05, 0.1, 0.2, rng.randint(1, 200) / 1000.0])
        data = [rng.randrange(256) for _ in range(L)]
        data[0] = k
        t += rng.choice([0.0, 0.0, 0.0002, 0.003, 0.02, 0.15])
        groups.append(dict(k=k, snd=rng.randrange(nsend), dp=rng.randrange(2), pf=pf, ps=ps, da=da, prio=rng.randrange(8), data=data, limit=lim,
                           fmt=fmt, t=t, ret=None, exc=None))

    if pre:
        # chasers: another group for the same destination submitted right when an earlier time-limited group comes due
        for g in list(groups):
            if len(groups) >= 12:
                break
            if g['limit'] > 0 and g['fmt'] == 'FEFF' and prng.random() < 0.6:
                data = [prng.randrange(256) for _ in range(prng.choice([1, 8, 20, prng.randint(1, 40)]))]
                data[0] = len(groups)
                groups.append(dict(g, k=len(groups), data=data, prio=prng.randrange(8), limit=prng.choice([0.001, 0.01, 0.05]),
                                   t=g['t'] + g['limit'] + prng.uniform(0.0, 0.0012), chaser=True))
    FF = W.j1939.message_id.FrameFormat if hasattr(W.j1939, 'message_id') else None
    import importlib
    FF = importlib.import_module('j1939.message_id').FrameFormat

    scribble = random.Random(case['seed'] ^ 0x5C21)
    reused = [0]

    def submit(g):
        ca = senders[g['snd']]
        buf = list(g['data'])
        rec = W.call('send_pgn', ca.send_pgn, g['dp'], g['pf'], g['ps'], g['prio'], buf, g['limit'],
                     FF.FBFF if g['fmt'] == 'FBFF' else FF.FEFF)
        # the application re-uses its buffer as soon as the call has returned: what was given to send_pgn is what must be sent
        how = scribble.choice(['keep', 'overwrite', 'clear', 'grow'])
        if how == 'overwrite':
            buf[:] = [0xEE] * len(buf)
        elif how == 'clear':
            del buf[:]
        elif how == 'grow':
            buf.extend([0xDD] * 7)
        reused[0] += how != 'keep'
        g['ret'] = rec['ret']
        g['exc'] = rec['exc']
        g['t_sub'] = rec['t0']

    if pre:
        submit_from = 'app'
    for g in groups:
        if submit_from == 'app':
            sim.at(g['t'], submit, g)
        else:
            # from inside a timer callback of the sending ECU (job-thread context)
            def reg(g=g):
                A.ecu.add_timer(0.0005, lambda c, g=g: (submit(g), False)[1])
            sim.at(max(0.011, g['t'] - 0.0005), reg)
    end = max(g['t'] for g in groups) + 0.2 + 5.5
    W.run(end)

    # ---------------------------------------------------------------- oracle on the wire
    obs = dict(groups_checked=0, groups_time_limited=0, frames_with_several_groups=0, fbff_frames=0, mpg_frames=0, deliveries_compared=0,
               late_max_ms=0, refused_fbff=0, preempted_cases=1 if pre else 0, preemption_holds=holds_n[0], chasers=sum(1 for g in groups if g.get('chaser')), buffers_reused=reused[0])
    sn = SN.sniff(layer, [f for f in W.bus.frames if f.src == 'A'])
    pending = collections.defaultdict(list)       # (fbff, sa, da) -> submitted groups not yet seen on the bus
    for g in groups:
        if g['exc']:
            viol.add('send_raised', 'send_pgn raised %s' % g['exc'], layer=layer)
            continue
        sa = a_addrs[g['snd']]
        if g['fmt'] == 'FBFF' and g['da'] != 255:
            continue
        if g['ret'] is False and g['fmt'] == 'FBFF':
            obs['refused_fbff'] += 1
            continue
        cpgn = (g['dp'] << 16) | (g['pf'] << 8) | (g['ps'] if g['pf'] >= 240 else 0)
        g['cpgn'] = cpgn
        pending[(g['fmt'] == 'FBFF', sa, g['da'])].append(g)
    for (tf, src, idf, grps, problems, fr) in sn.mpg:
        obs['mpg_frames'] += 1
        if idf['fbff']:
            obs['fbff_frames'] += 1
        if len(fr.data) > 64 or len(fr.data) not in C.FD_LENGTHS:
            viol.add('mpg_frame_length', 'Multi-PG frame with %d data bytes: %s' % (len(fr.data), fr.brief()), layer=layer)
        for p in problems:
            viol.add('mpg_undecodable', 'reference decoder: %s in %s' % (p, fr.brief()), layer=layer)
        if len(grps) > 1:
            obs['frames_with_several_groups'] += 1
        key = (idf['fbff'], idf['sa'], idf['da'])
        for (tos, tfm, cpgn, payload) in grps:
            if (tos, tfm) != (2, 0):
                viol.add('mpg_header', 'C-PG header TOS %d TF %d in %s' % (tos, tfm, fr.brief()), layer=layer)
            cand = [g for g in pending.get(key, []) if g['cpgn'] == cpgn and bytes(g['data']) == payload and 'seen' not in g]
            if not cand:
                other = [k2 for k2, v in pending.items() if k2 != key and any(g['cpgn'] == cpgn and bytes(g['data']) == payload for g in v)]
                if other:
                    viol.add('mpg_mixed', 'group cpgn=%05X len=%d submitted for %s appeared in a frame for %s' % (cpgn, len(payload), other[0], key), layer=layer)
                else:
                    dup = [g for g in pending.get(key, []) if g['cpgn'] == cpgn and bytes(g['data']) == payload]
                    viol.add('mpg_duplicate_group' if dup else 'mpg_unknown_group', 'frame %s carries group cpgn=%05X len=%d data=%s that %s'
                             % (fr.brief()[:60], cpgn, len(payload), payload[:8].hex(), 'was already sent' if dup else 'nobody submitted'), layer=layer)
                continue
            g = cand[0]
            g['seen'] = fr.t
            obs['groups_checked'] += 1
            if g['limit'] > 0:
                obs['groups_time_limited'] += 1
            late = fr.t - (g['t_sub'] + g['limit'])
            if pre:
                # scheduling latency injected by the harness: every hold of the job thread between the submission and the frame can delay the
                # frame by its length (e.g. a hold between computing the sleep time and going to sleep makes the thread oversleep by that much)
                late -= sum(min(h1, fr.t) - max(h0, g['t_sub']) for (h0, h1, fn, ln) in hold_log if h1 > g['t_sub'] and h0 < fr.t)
            obs['late_max_ms'] = max(obs['late_max_ms'], int(late * 1000))
            if late > SLACK:
                viol.add('mpg_late', 'group #%d (limit %.3f s, submitted %.4f from %s, background %s) reached the bus at %.4f: %.1f ms after its limit'
                         % (g['k'], g['limit'], g['t_sub'], submit_from, background, fr.t, late * 1000), layer=layer, limited=g['limit'] > 0)
    for key, lst in pending.items():
        for g in lst:
            if 'seen' not in g:
                viol.add('mpg_group_never_sent', 'group #%d (cpgn %05X len %d limit %.3f) for %s never appeared on the bus within %.1f s'
                         % (g['k'], g['cpgn'], len(g['data']), g['limit'], key, end - g['t_sub']), layer=layer)
    # ---------------------------------------------------------------- deliveries (FEFF only; the stack does not receive FBFF)
    expected = collections.defaultdict(list)
    for g in groups:
        if g['exc'] or g['fmt'] == 'FBFF' or g['ret'] is False:
            continue
        sa = a_addrs[g['snd']]
        tag = dict(mode='mpg', m=g['k'], len=len(g['data']))
        for nd in ('B', 'C'):
            if g['da'] == 255 or owner.get(g['da']) == nd:
                expected[('ca', nd)].append((g['cpgn'], sa, bytes(g['data']), tag))
                expected[('ecu', nd)].append((g['cpgn'], sa, bytes(g['data']), tag))
    obs['deliveries_compared'] = M.m_deliv(viol, expected, W.deliv, None, layer, describe=lambda tg: 'group #%d len %d' % (tg['m'], tg['len']))
    M.m_live(viol, W, layer)
    tb = A.tables()
    if tb.get('_multi_pg_snd_buffer'):
        viol.add('session_stuck', 'Multi-PG send buffer still holds %d entries %.1f s after the last submission' % (tb['_multi_pg_snd_buffer'], 5.5), layer=layer,
                 table='_multi_pg_snd_buffer')
    sigk = sorted(set(('g' if g['da'] == 255 else 'p', 'z' if g['limit'] == 0 else 'l', g['fmt']) for g in groups))
    sig = repr((tuple(sigk), submit_from, background, nsend, min(nmsg, 6)))
    sample = dict(case=case, submit_from=submit_from, background=background,
                  groups=[(g['k'], g['fmt'], '%02X' % g['pf'], '%02X' % g['da'], len(g['data']), g['limit'], round(g['t'], 4),
                           round(g.get('seen', -1), 4)) for g in groups],
                  frames=[f.brief()[:90] for f in W.bus.frames[:6]])
    res = dict(violations=list(viol), inconclusive=None, sig=sig, nontrivial=obs['groups_checked'] >= 2, obs=obs, sample=sample)
    res['fingerprint'] = order_fingerprint(W.bus.frames)
    if case.get('trace'):
        res['trace'] = [f.brief() for f in W.bus.frames]
    W.close()
    return res
