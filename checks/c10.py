"""C10 -- transport capacity is conserved over any history of good and failed transfers (M-CAP)."""
import random
import collections

from vt.world import World
from vt import monitors as M
from vt import engine
from vt.bus import order_fingerprint
from vt.bus import ScriptNode
from ref import codec as C
from ref import sniffer as SN

PROPERTY = 'C10'
LEVEL = 'exploration'
RULE = ('cases = seeded random histories of 1..40 transfers around one stack S (two CAs) with a real partner stack P and a scripted peer R: S->P '
        'clean or with the n-th following bus frame lost; S->R where R completes, aborts on the RTS / after the first data packet, grants then '
        'falls silent, or never answers; S broadcasts; P->S clean or with a lost frame; R->S inbound sessions with arbitrary (also colliding / '
        'out-of-pool) session numbers that complete, are abandoned or aborted; R->S inbound BAM with arbitrary session numbers; gaps 0..3 s so '
        'that transfers overlap; then 3.5 s of quiet and the capacity probe: J1939-22 = 8 RTS/CTS + 4 BAM submitted at one instant must all be '
        'accepted, the 9th/5th refused without a frame, all 12 delivered; J1939-21 = every (SA,DA) pair accepts at once, a second call on a busy '
        'pair is refused, and is accepted again after completion; during the history send_pgn may return False only while the bus log shows the '
        'capacity in use; FD pool invariant (free slots + live own sessions = 8/4) asserted after every DLL entry point; in a third of the cases the stack\'s job thread is additionally pre-empted at random source lines (0.2..2 ms holds); non-trivial = history '
        'contained >=1 failed transfer and the probe ran; distinct = layer + multiset of step kinds')
ASSUMPTIONS = ['"in progress" is derived from the bus log: session open until its terminal frame, else last activity + the state\'s time-out + 50 ms',
               'the FD pools are read through private attributes; if absent the invariant is reported not-observed and the probe decides alone']
MIN_OBS = {'history_steps': {'quick': 15000, 'thorough': 400000}, 'failed_transfers': {'quick': 4000, 'thorough': 100000},
           'probe_transfers_delivered': {'quick': 6000, 'thorough': 150000}, 'probe_refusals_checked': {'quick': 1200, 'thorough': 30000},
           'pool_invariant_checks': {'quick': 150000, 'thorough': 4000000}, 'inbound_odd_sessions': {'quick': 500, 'thorough': 12000},
           'preempted_cases': {'quick': 250, 'thorough': 6000}, 'rx_preempted_cases': {'quick': 100, 'thorough': 2500}}
MIN_OBS_UNLESS = {'pool_invariant_checks': 'pool_not_observed'}      # private pool names may be gone after a refactor

S1, S2, PA, RA = 0x10, 0x11, 0x20, 0x30


def cases(tier, seed):
    rng = random.Random(10000 + seed)
    n = 1200 if tier == 'quick' else 30000
    return [dict(seed=rng.randrange(1 << 30), layer='j1939-21' if i % 3 == 0 else 'j1939-22') for i in range(n)]


class Peer(ScriptNode):
    """scripted peer at RA: responder with planned misbehaviour, and originator of inbound sessions"""

    def __init__(self, bus, sim, rng, fd):
        super().__init__(bus, 'R')
        self.sim = sim
        self.rng = rng
        self.fd = fd
        self.plan = collections.deque()      # behaviours for the next RTS addressed to us
        self.rx = {}                         # (sa, ses) -> state
        self.out = {}                        # (da, ses) -> originator state
        self.completed = []

    def tx(self, pf, da, data, prio=7):
        self.send(C.make_id(prio, 0, pf, da, RA), data, fd=self.fd)

    def on_frame(self, fr):
        if not fr.ext:
            return
        f = C.split_id(fr.can_id)
        if f['ps'] != RA:
            return
        d = fr.data
        sa = f['sa']
        if self.fd:
            if f['pf'] == C.PF_FD_TP_CM and len(d) >= 12:
                m = C.parse_fdcm(d)
                ses = m['session']
                if m['type'] == 'RTS':
                    beh = self.plan.popleft() if self.plan else 'complete'
                    st = dict(beh=beh, size=m['size'], n=m['segments'], pgn=m['pgn'], got=0, ses=ses, sa=sa)
                    self.rx[(sa, ses)] = st
                    if beh == 'abort_on_rts':
                        self.sim.after(0.001, self.tx, C.PF_FD_TP_CM, sa, C.fdcm_abort(ses, 1, m['pgn']))
                        del self.rx[(sa, ses)]
                    elif beh == 'silent':
                        del self.rx[(sa, ses)]
                    else:
                        self.sim.after(0.001, self.tx, C.PF_FD_TP_CM, sa, C.fdcm_cts(ses, 1, min(m['limit'], m['segments'], 2), m['pgn']))
                        st['granted'] = st['granted0'] = min(m['limit'], m['segments'], 2)
                elif m['type'] == 'EOMS' and (sa, ses) in self.rx:
                    st = self.rx.pop((sa, ses))
                    if st['beh'] == 'complete':
                        self.tx(C.PF_FD_TP_CM, sa, C.fdcm_eoma(ses, st['size'], st['pgn'], st['n']))
                        self.completed.append((sa, st['pgn'], st['size']))
                elif m['type'] == 'CTS' and (sa, ses) in self.out:
                    self.o_cts(self.out[(sa, ses)], m['next'], m['n'])
                elif m['type'] in ('EOMA', 'ABORT') and (sa, ses) in self.out:
                    self.out.pop((sa, ses))
            elif f['pf'] == C.PF_FD_TP_DT and len(d) > 4:
                ses = d[0] >> 4
                st = self.rx.get((sa, ses))
                if st:
                    st['got'] += 1
                    if st['beh'] == 'abort_after_dt':
                        self.tx(C.PF_FD_TP_CM, sa, C.fdcm_abort(ses, 2, st['pgn']))
                        del self.rx[(sa, ses)]
                    elif st['beh'] == 'abort_at_t3':
                        if st['got'] == st['granted0']:
                            self.sim.after(1.25, self.tx, C.PF_FD_TP_CM, sa, C.fdcm_abort(ses, 3, st['pgn']))
                            del self.rx[(sa, ses)]
                    elif st['beh'] == 'cts_then_silent':
                        del self.rx[(sa, ses)]
                    else:
                        st['granted'] -= 1
                        if st['granted'] == 0 and st['got'] < st['n']:
                            st['granted'] = min(3, st['n'] - st['got'])
                            self.tx(C.PF_FD_TP_CM, sa, C.fdcm_cts(ses, st['got'] + 1, st['granted'], st['pgn']))
        else:
            if f['pf'] == C.PF_TP_CM and len(d) == 8:
                m = C.parse_tpcm(d)
                if m['type'] == 'RTS':
                    beh = self.plan.popleft() if self.plan else 'complete'
                    st = dict(beh=beh, size=m['size'], n=m['packets'], pgn=m['pgn'], got=0, sa=sa)
                    self.rx[(sa, None)] = st
                    if beh == 'abort_on_rts':
                        self.sim.after(0.001, self.tx, C.PF_TP_CM, sa, C.tpcm_abort(1, m['pgn']))
                        del self.rx[(sa, None)]
                    elif beh == 'silent':
                        del self.rx[(sa, None)]
                    else:
                        st['granted'] = st['granted0'] = min(m['limit'], m['packets'])
                        self.sim.after(0.001, self.tx, C.PF_TP_CM, sa, C.tpcm_cts(st['granted'], 1, m['pgn']))
                elif m['type'] == 'CTS' and (sa, None) in self.out:
                    self.o_cts(self.out[(sa, None)], m['next'], m['n'])
                elif m['type'] in ('EOM', 'ABORT') and (sa, None) in self.out:
                    self.out.pop((sa, None))
            elif f['pf'] == C.PF_TP_DT and len(d) == 8:
                st = self.rx.get((sa, None))
                if st:
                    st['got'] += 1
                    if st['beh'] == 'abort_after_dt':
                        self.tx(C.PF_TP_CM, sa, C.tpcm_abort(2, st['pgn']))
                        del self.rx[(sa, None)]
                    elif st['beh'] == 'abort_at_t3':
                        # silent, then an abort that crosses the originator's own T3 time-out
                        if st['got'] == st['granted0']:
                            self.sim.after(1.25, self.tx, C.PF_TP_CM, sa, C.tpcm_abort(3, st['pgn']))
                            del self.rx[(sa, None)]
                    elif st['beh'] == 'cts_then_silent':
                        del self.rx[(sa, None)]
                    elif st['got'] >= st['n']:
                        self.tx(C.PF_TP_CM, sa, C.tpcm_eom(st['size'], st['n'], st['pgn']))
                        self.completed.append((sa, st['pgn'], st['size']))
                        del self.rx[(sa, None)]
                    else:
                        st['granted'] -= 1
                        if st['granted'] == 0:
                            st['granted'] = min(3, st['n'] - st['got'])
                            self.tx(C.PF_TP_CM, sa, C.tpcm_cts(st['granted'], st['got'] + 1, st['pgn']))

    # --- originator of inbound sessions ---
    def start(self, da, ses, pay, pgn, beh):
        unit = 60 if self.fd else 7
        n = (len(pay) + unit - 1) // unit
        st = dict(da=da, ses=ses, pay=pay, pgn=pgn, n=n, beh=beh, sent=0)
        self.out[(da, ses if self.fd else None)] = st
        if self.fd:
            self.tx(C.PF_FD_TP_CM, da, C.fdcm_rts(ses, len(pay), 255, pgn), prio=6)
        else:
            self.tx(C.PF_TP_CM, da, C.tpcm_rts(len(pay), 255, pgn), prio=6)

    def o_cts(self, st, nxt, n):
        if st['beh'] == 'abandon':
            self.out.pop((st['da'], st['ses'] if self.fd else None), None)
            return
        if st['beh'] == 'abort':
            self.out.pop((st['da'], st['ses'] if self.fd else None), None)
            if self.fd:
                self.tx(C.PF_FD_TP_CM, st['da'], C.fdcm_abort(st['ses'], 2, st['pgn']))
            else:
                self.tx(C.PF_TP_CM, st['da'], C.tpcm_abort(2, st['pgn']))
            return
        unit = 60 if self.fd else 7
        t = 0.0
        for i in range(n):
            k = nxt - 1 + i
            if k >= st['n']:
                break
            chunk = bytes(st['pay'][k * unit:(k + 1) * unit])
            t += 0.0005
            if self.fd:
                self.sim.after(t, self.tx, C.PF_FD_TP_DT, st['da'], C.fd_dt(st['ses'], k + 1, chunk))
            else:
                self.sim.after(t, self.tx, C.PF_TP_DT, st['da'], C.tp_dt(k + 1, chunk))
            st['sent'] = k + 1
            if st['beh'] == 'half' and st['sent'] >= max(1, st['n'] // 2):
                self.out.pop((st['da'], st['ses'] if self.fd else None), None)
                return
        if st['sent'] >= st['n'] and self.fd:
            self.sim.after(t + 0.0005, self.tx, C.PF_FD_TP_CM, st['da'], C.fdcm_eoms(st['ses'], len(st['pay']), st['pgn']))

    def bam(self, ses, pay, pgn, complete=True):
        unit = 60 if self.fd else 7
        n = (len(pay) + unit - 1) // unit
        if self.fd:
            self.send(C.make_id(6, 0, C.PF_FD_TP_CM, 255, RA), C.fdcm_bam(ses, len(pay), pgn), fd=True)
        else:
            self.send(C.make_id(6, 0, C.PF_TP_CM, 255, RA), C.tpcm_bam(len(pay), pgn))
        t = 0.0
        last = n if complete else max(0, n - 1)
        for k in range(last):
            t += 0.012 if self.fd else 0.052
            chunk = bytes(pay[k * unit:(k + 1) * unit])
            if self.fd:
                self.sim.after(t, self.send, C.make_id(7, 0, C.PF_FD_TP_DT, 255, RA), C.fd_dt(ses, k + 1, chunk), True)
            else:
                self.sim.after(t, self.send, C.make_id(7, 0, C.PF_TP_DT, 255, RA), C.tp_dt(k + 1, chunk))
        if self.fd and complete:
            self.sim.after(t + 0.012, self.send, C.make_id(7, 0, C.PF_FD_TP_CM, 255, RA), C.fdcm_eoms(ses, len(pay), pgn), True)


def install_pool_invariant(node, viol, counter, layer, holding=(0,)):
    """FD: after every DLL entry point, used slots == sessions of the stack's own live send buffers"""
    dll = node.dll
    if getattr(dll, '_J1939_22__rts_cts_session_list', None) is None or getattr(dll, '_snd_buffer', None) is None:
        return False

    def check(where):
        if holding[0]:
            return           # the job thread is suspended part-way through a pass: the invariant is only required at quiescent points
        counter[0] += 1
        rts = dll._J1939_22__rts_cts_session_list
        bam = dll._J1939_22__bam_session_list
        own_rts = sorted(b['session'] for b in dll._snd_buffer.values() if b.get('dest_address') != 255)
        own_bam = sorted(b['session'] for b in dll._snd_buffer.values() if b.get('dest_address') == 255)
        used_rts = [i for i, free in enumerate(rts) if not free]
        used_bam = [i for i, free in enumerate(bam) if not free]
        if used_rts != own_rts:
            viol.add('pool_invariant', 'after %s: RTS/CTS slots in use %s but own live send sessions %s' % (where, used_rts, own_rts), layer=layer,
                     pool='rts', how='leak' if len(used_rts) > len(own_rts) else 'over_release')
        if used_bam != own_bam:
            viol.add('pool_invariant', 'after %s: BAM slots in use %s but own live broadcast sessions %s' % (where, used_bam, own_bam), layer=layer,
                     pool='bam', how='leak' if len(used_bam) > len(own_bam) else 'over_release')

    for nm in ('send_pgn', 'notify', 'async_job_thread'):
        inner = getattr(dll, nm)

        def wrap(*a, _inner=inner, _nm=nm, **kw):
            try:
                return _inner(*a, **kw)
            finally:
                check(_nm)
        setattr(dll, nm, wrap)
    return True


def run_case(case):
    rng = random.Random(case['seed'])
    layer = case['layer']
    fd = layer == 'j1939-22'
    unit = 60 if fd else 7
    import importlib
    FBFF = importlib.import_module('j1939.message_id').FrameFormat.FBFF
    xrng = random.Random(case['seed'] ^ 0xFBFF)
    W = World(case['seed'], layer, (0.0001, 0.002))
    sim = W.sim
    viol = M.Violations()
    # in a third of the cases the job thread of S is pre-empted at random source lines (held 0.2..2 ms of virtual time while reception goes on)
    preempt = rng.random() < 0.33
    holds = [0]
    holding = [0]        # > 0 while the job thread is parked in the middle of a pass (its bookkeeping may legitimately be half done)
    pre_on = [True]
    if preempt:
        import os
        from vt.world import REPO
        jdir = os.path.realpath(os.path.join(REPO, 'j1939')) + os.sep
        prng = random.Random(case['seed'] ^ 0xABCDEF)

        def local(frame, event, arg):
            if event == 'line' and pre_on[0] and prng.random() < 0.004:
                holds[0] += 1
                holding[0] += 1
                try:
                    sim.block_current(until=sim.now + prng.choice([0.0002, 0.001, 0.002]), waitobj=engine.HOLD, jitter=False)
                finally:
                    holding[0] -= 1
            return local

        def tracer(frame, event, arg):
            if event != 'call' or not frame.f_code.co_filename.startswith(jdir):
                return None
            return local
    # half of the pre-empted cases suspend the RECEIVE thread of S in its frame handlers instead (the job thread is made to run meanwhile)
    rxp = preempt and random.Random(case['seed'] ^ 0x1234).random() < 0.5
    skw = {}
    if rxp:
        from vt import preempt as PRE
        sholder = []
        skw = dict(rx_thread=True, rx_trace=PRE.random_tracer(sim, case['seed'] ^ 0xFEDCBA, p=0.004, holds=(0.0002, 0.001, 0.002), on=pre_on, counter=holds,
                                                              holding=holding, kick=lambda h: sholder[0].ecu.add_timer(h / 2, lambda cookie: False)))
    elif preempt:
        sim.trace_hook = tracer
    # a configured minimum DT interval (the burst loop then leaves after every packet and the session stays 'sending' for a whole window)
    if random.Random(case['seed'] ^ 0xD7).random() < 0.3:
        skw['minimum_tp_rts_cts_dt_interval'] = random.Random(case['seed'] ^ 0xD8).choice([0.003, 0.01])
    S = W.stack('S', max_cmdt_packets=rng.choice([1, 2, 255]), **skw)
    if rxp:
        sholder.append(S)
        if random.Random(case['seed'] ^ 0x5105).random() < 0.5:
            S.send_time = (0.0, 0.002)          # a slow interface: every send call blocks its (controlled) caller up to 2 ms
    sim.trace_hook = None
    P = W.stack('P', max_cmdt_packets=rng.choice([1, 3, 255]))
    if rng.random() < 0.3:
        S.ecu.add_timer(rng.choice([0.01, 0.4, 0.9, 2.0]), lambda c: True)                  # unrelated periodic application timer
    s1 = W.ca(S, S1, identity_number=1)
    s2 = W.ca(S, S2, identity_number=2)
    pc = W.ca(P, PA, identity_number=3)
    W.listen_ca(s1, 'S1')
    W.listen_ca(s2, 'S2')
    W.listen_ca(pc, 'P')
    R = Peer(W.bus, sim, rng, fd)
    inv_count = [0]
    inv_ok = install_pool_invariant(S, viol, inv_count, layer, holding) if fd else False
    W.run(0.01)

    obs = dict(pool_not_observed=1 if (fd and not inv_ok) else 0, dt_interval_cases=1 if 'minimum_tp_rts_cts_dt_interval' in skw else 0, preempted_cases=1 if preempt else 0, rx_preempted_cases=1 if rxp else 0, history_steps=0, failed_transfers=0, probe_transfers_delivered=0, probe_refusals_checked=0, pool_invariant_checks=0,
               inbound_odd_sessions=0, refused_during_history=0)
    steps = []
    sends = []       # dict(t, sa, da, mode, ret)
    t = 0.02
    nsteps = rng.randint(1, 40)
    kinds = collections.Counter()
    small = lambda: unit * rng.randint(2, 5) - rng.randint(0, unit - 2)

    def do_send(ca, sa, da, mode, size):
        data = [rng.randrange(256) for _ in range(size)]
        if mode == 'bam':
            if rng.random() < 0.5:
                rec = W.call('send', ca.send_pgn, 0, 0xFE, 0xF0 + rng.randrange(8), 6, data)          # PDU2 group
            else:
                rec = W.call('send', ca.send_pgn, 0, 0xC0 + rng.randrange(8), 255, 6, data)           # PDU1 group to the global address
        else:
            if fd and xrng.random() < 0.15:
                # the optional frame_format argument (meaningful for Multi-PG only) given with a long message: the transfer runs as usual
                rec = W.call('send', ca.send_pgn, 0, 0xD0 + rng.randrange(8), da, 6, data, 0, FBFF)
            else:
                rec = W.call('send', ca.send_pgn, 0, 0xD0 + rng.randrange(8), da, 6, data)
        sends.append(dict(t=rec['t0'], sa=sa, da=255 if mode == 'bam' else da, mode='bam' if mode == 'bam' else 'cmdt', ret=rec['ret'], exc=rec['exc'],
                          fb=rec['frames_before'], fa=rec['frames_after']))

    for i in range(nsteps):
        kind = rng.choice(['s_p_clean', 's_p_clean', 's_p_lost', 's_r', 's_r', 's_r', 's_bam', 'p_s_clean', 'p_s_lost', 'r_s_in', 'r_s_in', 'r_s_bam', 's_burst'])
        kinds[kind] += 1
        t += rng.choice([0.0, 0.002, 0.02, 0.1, 0.4, 1.4, 3.2])
        ca, sa = rng.choice([(s1, S1), (s2, S2)])
        if kind == 's_p_clean':
            sim.at(t, do_send, ca, sa, PA, 'p2p', small())
        elif kind == 's_p_lost':
            def f(ca=ca, sa=sa, n=rng.randint(1, 8)):
                W.bus.lose.add(W.bus.wire_count + n)
                do_send(ca, sa, PA, 'p2p', small())
            sim.at(t, f)
            obs['failed_transfers'] += 1
        elif kind == 's_r':
            beh = rng.choice(['complete', 'abort_on_rts', 'abort_after_dt', 'cts_then_silent', 'silent', 'abort_at_t3'])
            if beh != 'complete':
                obs['failed_transfers'] += 1

            def f(ca=ca, sa=sa, beh=beh):
                R.plan.append(beh)
                do_send(ca, sa, RA, 'p2p', small())
            sim.at(t, f)
        elif kind == 's_bam':
            sim.at(t, do_send, ca, sa, 255, 'bam', small())
        elif kind == 's_burst':
            # several at one instant (some may legitimately be refused)
            for j in range(rng.randint(2, 6)):
                c2, a2 = rng.choice([(s1, S1), (s2, S2)])
                sim.at(t, do_send, c2, a2, rng.choice([PA, PA, RA]), rng.choice(['p2p', 'p2p', 'bam']), small())
        elif kind == 'p_s_clean':
            sim.at(t, lambda sa=sa: W.call('psend', pc.send_pgn, 0, 0xD8, sa, 6, [rng.randrange(256) for _ in range(small())]))
        elif kind == 'p_s_lost':
            def f(sa=sa, n=rng.randint(1, 8)):
                W.bus.lose.add(W.bus.wire_count + n)
                W.call('psend', pc.send_pgn, 0, 0xD8, sa, 6, [rng.randrange(256) for _ in range(small())])
            sim.at(t, f)
            obs['failed_transfers'] += 1
        elif kind == 'r_s_in':
            ses = rng.choice([0, 0, 1, 2, 7, 8, 9, 15]) if fd else 0
            if ses >= 8:
                obs['inbound_odd_sessions'] += 1
            beh = rng.choice(['complete', 'abandon', 'abort', 'half'])
            if beh != 'complete':
                obs['failed_transfers'] += 1
            sim.at(t, R.start, sa, ses, [rng.randrange(256) for _ in range(small())], 0xD900, beh)
        elif kind == 'r_s_bam':
            ses = rng.choice([0, 1, 3, 4, 5, 15]) if fd else 0
            if ses >= 4:
                obs['inbound_odd_sessions'] += 1
            comp = rng.random() < 0.6
            if not comp:
                obs['failed_transfers'] += 1
            sim.at(t, R.bam, ses, [rng.randrange(256) for _ in range(small())], 0xFEF0, comp)
        obs['history_steps'] += 1
    W.run(t + 0.6)
    pre_on[0] = False        # no pre-emption during the quiet period and the probe
    t_q = sim.now
    W.run(t_q + 3.5)
    obs['pool_invariant_checks'] = inv_count[0]

    # ---- refusals during the history must be justified by capacity in use on the bus -----------
    # S's view of the bus: everything it sent (even if lost afterwards) and everything that was not lost on the way
    sn = SN.sniff(layer, [f for f in W.bus.frames if f.src == 'S' or not f.lost])

    def stolen(t0, t1):
        # time the harness kept a thread of S blocked inside a slow send call: not S's own time for noticing the end of a session
        return sum(max(0.0, min(b, t1) - max(a, t0)) for (a, b) in S.slow_log)

    def in_progress(s, at):
        if s.t_open > at + 1e-9:
            return False
        if s.t_close is not None and not (preempt and s.abort is not None):
            return s.t_close >= at - (0.1 if preempt else 0.02) - stolen(s.t_close, at)
        # (with injected pre-emption a peer abort that lands in the middle of a burst may be overwritten by the burst's own state update; the
        # session is then released by its time-out -- the property does not quantify over schedules, so this is tolerated here; C08 judges it)
        bound = 3.0 if fd else 1.25
        return s.t_last + bound + 0.05 >= at
    for sd in sends:
        if sd['exc']:
            viol.add('send_raised', 'send_pgn raised %s' % sd['exc'], layer=layer)
            continue
        if sd['ret'] is True:
            continue
        obs['refused_during_history'] += 1
        own = [f for f in W.bus.frames[sd['fb']:sd['fa']] if f.src == 'S']
        if own:
            viol.add('refused_call_emitted', 'send_pgn returned %r but emitted %s' % (sd['ret'], own[0].brief()), layer=layer)
        live = [s for s in sn.sessions if s.src == 'S' and s.mode == sd['mode'] and in_progress(s, sd['t'])]
        if fd:
            cap = 4 if sd['mode'] == 'bam' else 8
            if len(live) < cap:
                viol.add('refused_below_capacity', 'send_pgn (%s) refused at %.4f with %d of %d sessions in use on the bus' % (sd['mode'], sd['t'], len(live), cap),
                         layer=layer, mode=sd['mode'])
        else:
            if not [s for s in live if s.sa == sd['sa'] and s.da == sd['da']]:
                viol.add('refused_idle_pair', 'send_pgn %02X->%02X refused at %.4f although no transfer on that pair was in progress' % (sd['sa'], sd['da'], sd['t']),
                         layer=layer, mode=sd['mode'])
    M.m_live(viol, W, layer)
    M.m_quiet(viol, W, layer, what='3.5 s after the history')
    dead = bool(W.liveness_problems())

    # ---- capacity probe ---------------------------------------------------------------------------
    if not dead:
        W.bus.lose.clear()
        nP = len(W.deliv['P'])
        probe = []

        def psend(ca, sa, mode, tagb):
            data = [tagb] + [rng.randrange(256) for _ in range(unit * 3 + 5)]
            if mode == 'bam':
                rec = W.call('probe', ca.send_pgn, 0, 0xFE, 0xE0, 6, list(data))
            else:
                rec = W.call('probe', ca.send_pgn, 0, 0xD1, PA, 6, list(data))
            probe.append(dict(sa=sa, mode=mode, data=bytes(data), ret=rec['ret'], exc=rec['exc'], fb=rec['frames_before'], fa=rec['frames_after']))
            return rec

        def go():
            if fd:
                for i in range(8):
                    psend(s1 if i % 2 else s2, S1 if i % 2 else S2, 'p2p', i)
                for i in range(4):
                    psend(s1 if i % 2 else s2, S1 if i % 2 else S2, 'bam', 100 + i)
                psend(s1, S1, 'p2p', 200)      # 9th
                psend(s2, S2, 'bam', 201)      # 5th
            else:
                psend(s1, S1, 'p2p', 1)
                psend(s2, S2, 'p2p', 2)
                psend(s1, S1, 'bam', 3)
                psend(s2, S2, 'bam', 4)
                psend(s1, S1, 'p2p', 200)      # same pair, busy
                psend(s2, S2, 'bam', 201)      # same pair, busy
        sim.at(sim.now + 0.01, go)
        W.run(sim.now + 3.0)
        ncap = 12 if fd else 4
        for i, pr in enumerate(probe):
            if pr['exc']:
                viol.add('probe_raised', 'capacity probe call raised %s' % pr['exc'], layer=layer)
                continue
            if i < ncap:
                if pr['ret'] is not True:
                    viol.add('capacity_lost', 'after the history the stack refused %s transfer %d of its advertised %d concurrent ones (ret %r); history kinds %s'
                             % (pr['mode'], i + 1, ncap, pr['ret'], dict(kinds)), layer=layer, mode=pr['mode'])
                else:
                    n = sum(1 for d in W.deliv['P'][nP:] if d[4] == pr['data'] and d[3] == pr['sa'])
                    if n != 1:
                        viol.add('probe_not_delivered', 'capacity probe %s transfer %d delivered %d times' % (pr['mode'], i + 1, n), layer=layer, mode=pr['mode'])
                    else:
                        obs['probe_transfers_delivered'] += 1
            else:
                obs['probe_refusals_checked'] += 1
                if pr['ret'] is not False:
                    viol.add('capacity_exceeded', 'call beyond capacity (%s) returned %r instead of False' % (pr['mode'], pr['ret']), layer=layer, mode=pr['mode'])
                own = [f for f in W.bus.frames[pr['fb']:pr['fa']] if f.src == 'S']
                if own:
                    viol.add('refused_call_emitted', 'call beyond capacity emitted %s' % own[0].brief(), layer=layer)
        if not fd and not viol:
            # accepted again after completion
            r2 = {}
            sim.at(sim.now + 0.01, lambda: r2.update(a=W.call('again', s1.send_pgn, 0, 0xD1, PA, 6, [9] * 20), b=W.call('again', s2.send_pgn, 0, 0xFE, 0xE0, 6, [8] * 20)))
            W.run(sim.now + 1.5)
            for k in ('a', 'b'):
                if r2.get(k, {}).get('ret') is not True:
                    viol.add('capacity_lost', 'pair refused again after its transfer completed', layer=layer, mode='p2p' if k == 'a' else 'bam')
        M.m_live(viol, W, layer)
        M.m_quiet(viol, W, layer, what='after the capacity probe')
    obs['pool_invariant_checks'] = inv_count[0]
    obs['preemption_holds'] = holds[0]
    sig = repr((layer, tuple(sorted(kinds.items()))))
    sample = dict(case=case, steps=dict(kinds), sends=[(round(s['t'], 3), '%02X' % s['sa'], '%02X' % s['da'], s['ret']) for s in sends[:14]],
                  pool_invariant_observed=inv_ok, frames=len(W.bus.frames))
    res = dict(violations=list(viol), inconclusive=None, sig=sig, nontrivial=obs['failed_transfers'] > 0 and not dead, obs=obs, sample=sample)
    res['fingerprint'] = order_fingerprint(W.bus.frames)
    if case.get('trace'):
        res['trace'] = [f.brief() for f in W.bus.frames[:600]]
    W.close()
    return res
