"""C09 -- originator obeys flow control and pacing; responder never over-grants (M-FLOW + M-PACE)."""
import random

from vt import monitors as M
from . import xchg

PROPERTY = 'C09'
LEVEL = 'exploration'
RULE = ('cases = exchanges between one real stack and a scripted conforming peer (or a second real stack) on both data link layers: stack originator vs '
        'reference responder that grants 1..min(RTS limit, remaining) packets per CTS (random / one / maximum) and sends 0-3 hold CTS before the first '
        'grant and between windows, incl. holds refreshed for longer than 0.5 s in total and holds that the responder lets expire (next CTS 0.55..1.2 s later); reference originator with RTS limits 1..255 vs stack responder '
        'with max_cmdt_packets 1..255; stack broadcasts with minimum_tp_bam_dt_interval in {default, 10..190 ms}; connection-mode transfers with '
        'minimum_tp_rts_cts_dt_interval in {None, 1..50 ms}; all message sizes, latencies in [0,5 ms] (zero on J1939-21); oracle on the bus log (independent '
        'sniffer): no data packet before the first CTS, at most the granted number after each CTS, none after a hold until a new CTS, sequence numbers as '
        'cleared; broadcast packets (and the first one after the announcement) no closer than the configured interval and, on an idle ECU, no further '
        'apart than max(interval, 200 ms) + 2 ms; connection-mode packets inside a window no closer than the configured interval; every CTS of the stack '
        'grants <= RTS limit, <= its own max_cmdt_packets, <= packets remaining; non-trivial = >= 1 CTS or >= 1 measured gap; distinct = (layer, role, '
        'window class, intervals configured, peer policy)')
ASSUMPTIONS = ['the configured connection-mode interval is judged between consecutive packets of one CTS window (a new CTS is the responder\'s explicit clearance for the next packet)',
               'time stamps are the virtual instants at which the stack hands frames to its send backend; tolerance 2 us for "no closer", 2 ms for "no further apart"']
MIN_OBS = {'exchanges': {'quick': 1200, 'thorough': 20000}, 'cts_checked': {'quick': 4000, 'thorough': 100000}, 'dt_checked': {'quick': 25000, 'thorough': 500000},
           'holds_exercised': {'quick': 500, 'thorough': 10000}, 'expired_holds': {'quick': 30, 'thorough': 600}, 'bam_gaps_measured': {'quick': 3000, 'thorough': 60000}, 'cmdt_gaps_measured': {'quick': 1500, 'thorough': 30000}}


def cases(tier, seed):
    rng = random.Random(9000 + seed)
    out = []
    n = 3500 if tier == 'quick' else 36000
    for i in range(n):
        c = xchg.gen_case(rng)
        r = rng.random()
        if c['role'] == 'stack_orig':
            if r < 0.35:
                c['dt_interval'] = rng.choice([0.001, 0.005, 0.02, 0.05])
            if r > 0.5:
                c['holds'] = rng.choice([(1, 3), (2, 3)])
                c['hold_between'] = 0.5
            if r > 0.85:
                # the responder lets a hold expire (next CTS 0.55..1.2 s after the last hold): a correct originator gives the connection up,
                # it never sends data on its own
                c['holds'] = (1, 2)
                c['late_after_hold'] = (0.55, 1.2)
                c['size'] = min(c['size'], 400 if c['layer'] == 'j1939-22' else 60)
        if c['role'] == 'stack_bam_tx' and r < 0.7:
            c['bam_interval'] = rng.choice([0.01, 0.02, 0.05, 0.1, 0.15, 0.19])
        out.append(c)
    # J1939-22 messages with more than 255 segments outstanding against a responder that grants the full 255 every time
    for i in range(6 if tier == 'quick' else 40):
        c = xchg.gen_case(rng, layer='j1939-22', role='stack_orig')
        c.update(size=rng.randint(15301, 20000), w=255, grant='max', limit=255, peer_max=255, holds=(0, 0), hold_between=0.0, reply=(0.0, 0.002), zero=0.0,
                 dt_interval=None, late_after_hold=None)
        out.append(c)
    # series of messages from one stack, a destination-specific transfer running and ending while a broadcast is between two packets
    for i in range(100 if tier == 'quick' else 1200):
        out.append(dict(kind='series', layer='j1939-22' if i % 2 else 'j1939-21', seed=rng.randrange(1 << 30)))
    for i in range(80 if tier == 'quick' else 800):
        c = xchg.gen_case(rng, role='stack_stack')
        c['w2'] = rng.choice([1, 2, 5, 255])
        c['dt_interval'] = rng.choice([None, 0.002, 0.01])
        out.append(c)
    return out


JUDGED = xchg.FLOW_KINDS + ('bam_too_fast', 'bam_too_slow', 'cmdt_too_fast', 'unexpected_hold', 'rts_limit', 'thread_died', 'spin', 'runaway')


def run_case(case):
    if case.get('kind') == 'series':
        from checks import c03
        r = c03.run_series(case, pacing=True)
        for k in ('expired_holds',):
            r['obs'].setdefault(k, 0)
        return r
    r = xchg.run_exchange(case)
    viol = M.Violations()
    for (kind, msg) in r['findings']:
        if kind in JUDGED:
            viol.add(kind, '%s %s size=%d w=%d: %s' % (case['layer'], case['role'], case['size'], case['w'], msg), layer=case['layer'], role=case['role'])
    o = r['obs']
    sig = repr((case['layer'], case['role'], min(case['w'], 4), case.get('dt_interval') is not None, case.get('bam_interval') is not None, case['grant'],
                case['holds'][1] > 0, min(case['limit'], 4)))
    res = dict(violations=list(viol), inconclusive=None, sig=sig, nontrivial=(o['cts_checked'] + o['bam_gaps_measured']) > 0, obs=o, sample=r['sample'])
    if r['trace']:
        res['trace'] = r['trace']
    return res
