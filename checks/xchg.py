"""Exchange runner shared by C03 (wire format / interoperability) and C09 (flow control / pacing):
one real stack against a scripted conforming peer (ref.peers), or two real stacks, judged from the bus log by ref.sniffer."""
import random

from vt.world import World
from vt import monitors as M
from ref import codec as C
from ref import sniffer as SN
from ref.peers import Responder, Originator

STACK, REF = 0x10, 0x20
FLOW_KINDS = ('dt_not_cleared', 'dt_out_of_sequence', 'over_grant_rts_limit', 'over_grant_remaining', 'cts_next_range', 'own_max_exceeded')

BOUNDARY_21 = [9, 13, 14, 15, 16, 20, 21, 22, 28, 29, 63, 64, 70, 255 * 7 - 7, 1778, 1779, 1784, 1785]
BOUNDARY_22 = [61, 62, 119, 120, 121, 179, 180, 181, 239, 240, 241, 600, 601]


def gen_case(rng, layer=None, role=None):
    layer = layer or rng.choice(['j1939-21', 'j1939-22'])
    fd = layer == 'j1939-22'
    role = role or rng.choice(['stack_orig', 'stack_orig', 'stack_resp', 'stack_resp', 'stack_bam_tx', 'stack_bam_rx'])
    if fd:
        size = rng.choice([rng.randint(61, 4000), rng.choice(BOUNDARY_22), rng.randint(61, 400), 60 * rng.randint(2, 40) + rng.choice([-1, 0, 1])])
    else:
        size = rng.choice([rng.randint(9, 1785), rng.choice(BOUNDARY_21), rng.randint(9, 80), min(1785, 7 * rng.randint(2, 255) + rng.choice([-1, 0, 1]))])
    if role in ('stack_bam_tx', 'stack_bam_rx'):
        size = min(size, 60 * 30 if fd else 7 * 40)           # keep broadcast durations moderate
    case = dict(layer=layer, role=role, size=size, w=rng.choice([1, 1, 2, 3, 7, 16, 255, rng.randint(1, 255)]),
                dp=rng.randrange(2), pf=rng.choice([0xD0, 0xC9, 0x00, 0xEF, rng.randrange(0, 240)]), prio=rng.randrange(8),
                zero=rng.choice([0.0, 0.0, 0.5, 1.0]), lat=rng.choice([(1e-5, 0.005), (1e-5, 0.0005)]),
                grant=rng.choice(['random', 'random', 'max', 'one']), holds=rng.choice([(0, 0), (0, 3), (1, 3)]),
                reply=rng.choice([(0.0, 0.0), (0.0, 0.001), (0.0, 0.15), (0.05, 0.15)]), hold_between=rng.choice([0.0, 0.3]),
                limit=rng.choice([1, 2, 3, 8, 255, rng.randint(1, 255)]), pacing=rng.choice([(0.0, 0.0), (0.0, 0.002), (0.0, 0.05), (0.05, 0.19)]),
                bam_spacing=rng.choice([(0.05, 0.06), (0.05, 0.2), (0.19, 0.2)]) if not fd else rng.choice([(0.01, 0.012), (0.01, 0.2), (0.05, 0.2)]),
                dt_interval=rng.choice([None, None, None, 0.001, 0.005, 0.02, 0.05]),
                bam_interval=rng.choice([None, None, 0.01, 0.02, 0.05, 0.1, 0.19]), seed=rng.randrange(1 << 30),
                addrs=rng.choice([(0x10, 0x20), (0x10, 0x20), (0x00, 0x20), (0x10, 0x00), (253, 1), (rng.randrange(0, 127), rng.randrange(128, 254))]))
    while case['pf'] in (0xEA, 0xEB, 0xEC, 0xEE, 0x4D, 0x4E, 0x25):
        case['pf'] = rng.randrange(0, 240)
    if role.startswith('stack_bam'):
        case['pf'] = rng.choice([0xFE, 0xFF, 0xF0, case['pf']])
    return case


def run_exchange(case):
    """-> dict(findings=[(kind, msg)], obs={}, sample={})   findings are about the stack under test only"""
    layer = case['layer']
    fd = layer == 'j1939-22'
    role = case['role']
    rng = random.Random(case['seed'])
    W = World(case['seed'], layer, tuple(case['lat']), case['zero'])
    STACK, REF = case.get('addrs', (0x10, 0x20))
    sim = W.sim
    kw = dict(max_cmdt_packets=case['w'])
    if case.get('dt_interval') is not None:
        kw['minimum_tp_rts_cts_dt_interval'] = case['dt_interval']
    if case.get('bam_interval') is not None:
        kw['minimum_tp_bam_dt_interval'] = case['bam_interval']
    A = W.stack('A', **kw)
    ca = W.ca(A, STACK, identity_number=1)
    W.listen_ca(ca, 'A')
    # an unrelated periodic application timer on the stack under test in a quarter of the exchanges (its passes interleave with the transfer's)
    bgr = random.Random(case['seed'] ^ 0xB6)
    bg_timer = bgr.choice([0.004, 0.07, 0.3, 1.0]) if bgr.random() < 0.25 else None
    if bg_timer:
        A.ecu.add_timer(bg_timer, lambda cookie: True)
    findings = []
    size = case['size']
    pay = [rng.randrange(256) for _ in range(size)]
    unit = 60 if fd else 7
    npk = (size + unit - 1) // unit
    bam = role in ('stack_bam_tx', 'stack_bam_rx')
    ps = (REF if not bam else (rng.randrange(256) if case['pf'] >= 240 else 255))
    pgn_sub = (case['dp'] << 16) | (case['pf'] << 8) | (ps if case['pf'] >= 240 else 0)
    pgn_wire = pgn_sub if not bam else ((case['dp'] << 16) | (case['pf'] << 8) | ps)
    iv_bam = case.get('bam_interval') if case.get('bam_interval') is not None else (0.010 if fd else 0.050)
    R = None
    O = None
    B = None
    t0 = 0.02
    if role in ('stack_orig', 'stack_bam_tx'):
        R = Responder(W.bus, sim, rng, REF, fd, grant=case['grant'], holds=tuple(case['holds']), reply=tuple(case['reply']), hold_between=case['hold_between'],
                      grants=case.get('grants'), own_max=case.get('peer_max', 255), late_after_hold=case.get('late_after_hold'))
        W.run(0.01)
        sim.at(t0, lambda: W.call('send', ca.send_pgn, case['dp'], case['pf'], ps, case['prio'], list(pay)))
        dur = npk * (iv_bam + 0.001) + 1
        if not bam:
            windows = npk  # worst case one packet per CTS
            dur = windows * (0.15 + 0.01 + (case.get('dt_interval') or 0)) + windows * case['hold_between'] * 3 * 0.47 + 3 * 0.47 + 3
    elif role in ('stack_resp', 'stack_bam_rx'):
        O = Originator(W.bus, sim, rng, REF, fd, pacing=tuple(case['pacing']), prio=case['prio'])
        W.run(0.01)
        if bam:
            box = {}
            sim.at(t0, lambda: box.update(d=O.bam(pgn_wire, bytes(pay), tuple(case['bam_spacing']), session=rng.randrange(16) if fd else 0)))
            dur = (npk + 2) * (case['bam_spacing'][1] + 0.001) + 2
        else:
            sim.at(t0, lambda: O.start(STACK, pgn_sub, bytes(pay), case['limit'], session=rng.randrange(16) if fd else 0))
            dur = npk * (case['pacing'][1] + 0.012) + 3
    else:
        B = W.stack('B', max_cmdt_packets=case.get('w2', 255))
        cb = W.ca(B, REF, identity_number=2)
        W.listen_ca(cb, 'B')
        W.run(0.01)
        sim.at(t0, lambda: W.call('send', ca.send_pgn, case['dp'], case['pf'], ps, case['prio'], list(pay)))
        dur = npk * (iv_bam + 0.012 + (case.get('dt_interval') or 0)) + 3
    W.run(t0 + dur)
    sn = SN.sniff(layer, W.bus.frames)
    expect_failure = bool(case.get('late_after_hold'))
    obs = dict(exchanges=1, frames=len(W.bus.frames), cts_checked=0, dt_checked=0, holds_exercised=0, bam_gaps_measured=0, cmdt_gaps_measured=0,
               stack_originator=0, stack_responder=0, zero_latency=1 if case['zero'] else 0, background_timer=1 if bg_timer else 0, bam_gap_min_us_max=0, bam_gap_max_ms_max=0)
    for p in W.liveness_problems():
        findings.append((p['kind'], '%s %s at %s' % (p['thread'], p['exc'], p['where'])))
    # ---- sniffer problems caused by frames of the stack(s) under test -----------------------------------------
    stacks = ('A', 'B')
    for (kind, by, msg) in sn.problems:
        if by in stacks:
            findings.append((kind, msg))
    sess = [s for s in sn.sessions if s.src in stacks or s.resp in stacks or s.src == 'REF']
    for s in sn.sessions:
        obs['cts_checked'] += len(s.cts)
        obs['dt_checked'] += len(s.dts)
        obs['holds_exercised'] += s.holds
    # ---- the message on the wire and at the receiver ---------------------------------------------------------
    payb = bytes(pay)
    if role in ('stack_orig', 'stack_bam_tx', 'stack_stack'):
        obs['stack_originator'] = 1
        rec = W.calls[0] if W.calls else None
        if rec is None or rec['ret'] is not True:
            findings.append(('send_refused', 'send_pgn returned %r / raised %s' % (rec and rec['ret'], rec and rec['exc'])))
        mine = [s for s in sn.sessions if s.src == 'A']
        if len(mine) != 1:
            findings.append(('session_count', 'the stack opened %d transport sessions for one message' % len(mine)))
        else:
            s = mine[0]
            if s.status != 'complete':
                findings.append(('session_' + s.status, 'session of the stack ended %s: %s (abort %s)' % (s.status, s.brief(), s.abort)))
            p = s.payload()
            if p != payb:
                findings.append(('wire_payload', 'the independent decoder reassembles %s from the stack\'s frames, submitted %s (%d bytes)'
                                 % ('nothing' if p is None else '%d bytes %s..' % (len(p), p[:8].hex()), payb[:8].hex(), len(payb))))
            if s.pgn != pgn_wire and M.norm_pgn(s.pgn) != M.norm_pgn(pgn_wire):
                findings.append(('wire_pgn', 'announced PGN %05X, submitted %05X' % (s.pgn, pgn_wire)))
            if s.sa != STACK or s.da != (255 if bam else REF):
                findings.append(('wire_addressing', 'session %02X->%02X, expected %02X->%02X' % (s.sa, s.da, STACK, 255 if bam else REF)))
            if (s.size, s.packets) != (size, npk):
                findings.append(('wire_size', 'announced size %d / %d packets, submitted %d / %d' % (s.size, s.packets, size, npk)))
            if not bam and not (1 <= s.limit <= 255):
                # any limit 1..255 is legal (255 = no limit); which one the stack announces is its own business
                findings.append(('rts_limit', 'RTS announces a window limit of %d' % s.limit))
            # pacing of the stack's own packets
            ts = [s.t_open] + [t for (t, seq, d) in s.dts]
            if fd and bam and s.eom:
                ts.append(s.eom['t'])
            gaps = [b - a for a, b in zip(ts, ts[1:])]
            if bam and gaps:
                obs['bam_gaps_measured'] += len(gaps)
                obs['bam_gap_min_us_max'] = int(min(gaps) * 1e6)
                obs['bam_gap_max_ms_max'] = int(max(gaps) * 1e3)
                for i, g in enumerate(gaps):
                    if g < iv_bam - 2e-6:
                        findings.append(('bam_too_fast', 'broadcast packet %d follows %.3f ms after the previous frame; configured minimum %.1f ms' % (i + 1, g * 1e3, iv_bam * 1e3)))
                        break
                    if g > max(iv_bam, 0.2) + 0.002:
                        findings.append(('bam_too_slow', 'broadcast packet %d follows %.1f ms after the previous frame on an idle ECU (interval %.1f ms, limit 200 ms)' % (i + 1, g * 1e3, iv_bam * 1e3)))
                        break
            if not bam and case.get('dt_interval') is not None and len(s.dts) > 1:
                # consecutive DT inside one CTS window
                cts_times = [c[0] for c in s.cts]
                for (ta, sa_, da_), (tb, sb_, db_) in zip(s.dts, s.dts[1:]):
                    if any(ta - 1e-9 <= tc <= tb for tc in cts_times):
                        continue
                    obs['cmdt_gaps_measured'] += 1
                    if tb - ta < case['dt_interval'] - 2e-6:
                        findings.append(('cmdt_too_fast', 'data packets %d and %d are %.3f ms apart; minimum_tp_rts_cts_dt_interval=%.1f ms' % (sa_, sb_, (tb - ta) * 1e3, case['dt_interval'] * 1e3)))
                        break
        if R is not None:
            okd = [d for d in R.done if d['payload'] == payb and d['complete'] and M.norm_pgn(d['pgn']) == M.norm_pgn(pgn_wire)]
            if len(okd) != 1:
                findings.append(('peer_reassembly', 'the conforming peer reassembled %s; submitted %d bytes' % ([(len(d['payload']), d['complete']) for d in R.done], size)))
        if B is not None:
            okd = [d for d in W.deliv['B'] if d[4] == payb and M.norm_pgn(d[2]) == M.norm_pgn(pgn_sub) and d[3] == STACK]
            if len(okd) != 1:
                findings.append(('stack_delivery', 'receiving stack delivered the message %d times' % len(okd)))
    if role in ('stack_resp', 'stack_bam_rx'):
        obs['stack_responder'] = 1
        got = W.deliv['A']
        okd = [d for d in got if d[4] == payb and M.norm_pgn(d[2]) == M.norm_pgn(pgn_wire) and d[3] == REF]
        if len(okd) != 1 or len(got) != 1:
            findings.append(('decode_delivery', 'a conforming %s of %d bytes (pgn %05X) was delivered %d times; all deliveries: %s'
                             % ('broadcast' if bam else 'RTS/CTS transfer', size, pgn_wire, len(okd), [(hex(d[2]), hex(d[3]), len(d[4])) for d in got][:4])))
        if not bam:
            fin = O.finished
            if len(fin) != 1 or not fin[0]['done']:
                findings.append(('not_acknowledged', 'the conforming originator was not acknowledged: %s' % ([(x['done'], x['aborted'], x.get('abort')) for x in fin] or 'no end of message')))
            for (n, nxt, lim, tot) in O.cts_seen:
                if n > case['w']:
                    findings.append(('own_max_exceeded', 'CTS grants %d packets although max_cmdt_packets=%d' % (n, case['w'])))
                    break
    if not A.tables_empty():
        findings.append(('session_stuck', 'stack session tables not empty at the end: %s' % A.tables()))
    if expect_failure:
        # the responder deliberately let a hold expire: the transfer may end with the originator's abort; only flow-control findings count
        findings = [f for f in findings if f[0] in FLOW_KINDS or f[0] in ('thread_died', 'spin', 'runaway')]
        obs['expired_holds'] = 1
    sample = dict(case={k: v for k, v in case.items()}, frames=[f.brief() for f in W.bus.frames[:8]], sessions=[s.brief() for s in sn.sessions][:3],
                  cts=[(round(c[0], 4), c[1], c[2]) for s in sn.sessions for c in s.cts][:8])
    trace = [f.brief() for f in W.bus.frames[:400]] if case.get('trace') else None
    W.close()
    return dict(findings=findings, obs=obs, sample=sample, trace=trace)
