"""C18 -- DM14 serves no data without the right key, surfaces errors, and recovers (M-DM14)."""
import random

from vt import monitors as M
from vt.bus import ScriptNode
from ref import codec as C
from . import dm14lib as D
from .c17 import gen_op

PROPERTY = 'C18'
LEVEL = 'exploration'
SLACK = 0.05
RULE = ('cases = seeded random histories of 1..6 operations (reads and writes, single frame and multi packet) on the same client and server objects, '
        'each operation either well-formed or failing in one of these ways: wrong key (off by one, FFFF, 0000, the seed itself, the user level, byte-swapped), refusal by the application at the '
        'proceed callback, refusal at respond(False, error, EDCP 6/7) with defined and undefined error codes, an error DM15 from a scripted server '
        'for every code of J1939Error and undefined ones, or an absent server; seed/key on in 70 % of the cases with seeds from {0000, 0001, FFFE, '
        'FFFF} and random; oracle: with seed/key configured the proceed/notify callbacks run and a DM16 leaves the server only after a DM14 carrying '
        'algorithm(seed issued) arrived from that requester; every failure surfaces as an exception whose text contains the hexadecimal error code '
        '(and the ErrorInfo text when defined); an absent server gives an exception within max_timeout + 50 ms of virtual time; after every failure '
        'the next well-formed operation succeeds with the right data; at the end all state attributes are IDLE; non-trivial = >= 1 failure followed '
        'by a well-formed operation; distinct = sequence of (operation kind, failure kind) + seed/key')
ASSUMPTIONS = ['error responses are sent with EDCP extension 6 or 7 (the client only reports an error indicator then)',
               'expected error texts are taken from a table copied from J1939-73 Appendix (names as in the library\'s ErrorInfo are compared case-insensitively by code)']
MIN_OBS = {'operations': {'quick': 10000, 'thorough': 150000}, 'failures_checked': {'quick': 4000, 'thorough': 60000}, 'recoveries_checked': {'quick': 1800, 'thorough': 27000},
           'gate_checks': {'quick': 4000, 'thorough': 60000}, 'wrong_key_ops': {'quick': 600, 'thorough': 9000}, 'error_codes_max': 1}

DEFINED = [0x0, 0x1, 0x2, 0x10, 0x11, 0x12, 0x13, 0x16, 0x17, 0x1F, 0x20, 0x21, 0x22, 0x23, 0x24, 0x100, 0x101, 0x102, 0x103, 0x104, 0x105, 0x106, 0x107,
           0x108, 0x109, 0x10A, 0x1000, 0x1001, 0x1002, 0x1003, 0x1004, 0x1005, 0x1006, 0x1007, 0x10000, 0x10001, 0x10002, 0x10003, 0x10004, 0xFFFFFF]
UNDEFINED = [0x3, 0xBEEF, 0x25, 0x10B, 0x1008, 0x10005, 0xABCDEF, 0x7FFFFF]
ERR = 0xE0          # address of the scripted error server
NOBODY = 0x44
FAILS = ['wrong_key', 'refuse_proceed', 'refuse_respond', 'scripted_error', 'absent']


def cases(tier, seed):
    rng = random.Random(18000 + seed)
    n = 4000 if tier == 'quick' else 60000
    return [dict(seed=rng.randrange(1 << 30)) for _ in range(n)]


class ErrorServer(ScriptNode):
    """answers every DM14 addressed to it with an 'operation failed' DM15 carrying the planned error code"""

    def __init__(self, bus, sim):
        super().__init__(bus, 'E')
        self.sim = sim
        self.plan = []
        self.sent = []

    def on_frame(self, fr):
        f = C.split_id(fr.can_id)
        if not fr.ext or f['pf'] != C.PF_DM14 or f['ps'] != ERR or len(fr.data) != 8:
            return
        m = C.parse_dm14(fr.data)
        if m['command'] in (C.DM14_COMPLETED, C.DM14_FAILED):
            return
        code, edcp = self.plan.pop(0) if self.plan else (0x1, 7)
        self.sent.append(code)
        self.sim.after(0.001, self.send, C.make_id(6, 0, C.PF_DM15, f['sa'], ERR), C.dm15(m['count'], C.DM15_FAILED, code, edcp))


def wrong_algo(seed):
    return (D.default_algo(seed) + 1) & 0xFFFF


def _never_right(f):
    def g(seed):
        k = f(seed) & 0xFFFF
        return k if k != D.default_algo(seed) else (k ^ 1)
    return g


# plausible wrong keys: off by one, "no key" (FFFF), zero, the seed itself, the user level the first DM14 carried, byte-swapped right key
WRONG_ALGOS = [wrong_algo, _never_right(lambda s: 0xFFFF), _never_right(lambda s: 0x0000), _never_right(lambda s: s), _never_right(lambda s: 7),
               _never_right(lambda s: ((D.default_algo(s) >> 8) | (D.default_algo(s) << 8)))]


def run_case(case):
    rng = random.Random(case['seed'])
    seedkey = rng.random() < 0.7
    seeds = None
    if seedkey and rng.random() < 0.5:
        seeds = [rng.choice([0x0000, 0x0001, 0xFFFE, 0xFFFF, rng.randrange(1 << 16)]) for _ in range(40)]
    ca_, sa_ = rng.choice([(D.CLI, D.SRV), (D.CLI, D.SRV), (0x00, D.SRV), (D.CLI, 0x00), (253, 1)])
    DW = D.Dm14World(case['seed'], seedkey=seedkey, seeds=seeds, windows=(rng.choice([1, 255]), rng.choice([1, 255])), latency=(0.0001, 0.003), cli_addr=ca_, srv_addr=sa_)
    DW.ctx['respond_inline'] = random.Random(case['seed'] ^ 0x181).random() < 0.25
    E = ErrorServer(DW.W.bus, DW.sim)
    viol = M.Violations()
    tag = dict(layer='dm14')
    nops = rng.randint(1, 6)
    ops = []
    kinds = []
    codes = set()
    for i in range(nops):
        op = gen_op(rng)
        if op['count'] * op['size'] > 40 and rng.random() < 0.7:
            op['count'] = max(1, 20 // op['size'])
            if op['kind'] == 'write':
                op['values'] = op['values'][:op['count']]
        fail = None
        if rng.random() < 0.5:
            fail = rng.choice(FAILS if seedkey else FAILS[1:])
        op['fail'] = fail
        op['timeout'] = rng.choice([0.3, 1, 2])
        if fail == 'wrong_key':
            wa = rng.choice(WRONG_ALGOS)
            op['pre'] = lambda dw, wa=wa: (dw.cli.set_seed_key_algorithm(wa), dw.ctx.update(accept=True, respond=('ok',)))
        elif fail == 'refuse_proceed':
            op['pre'] = lambda dw: (dw.cli.set_seed_key_algorithm(D.default_algo) if seedkey else None, dw.ctx.update(accept=False, respond=('ok',)))
        elif fail == 'refuse_respond':
            code = rng.choice(DEFINED[1:] + UNDEFINED)
            op['code'] = code
            codes.add(code)
            edcp = rng.choice([6, 7])
            op['pre'] = lambda dw, code=code, edcp=edcp: (dw.cli.set_seed_key_algorithm(D.default_algo) if seedkey else None,
                                                          dw.ctx.update(accept=True, respond=('refuse', code, edcp)))
        elif fail == 'scripted_error':
            code = rng.choice(DEFINED + UNDEFINED)
            op['code'] = code
            codes.add(code)
            op['dest'] = ERR
            op['pre'] = lambda dw, code=code, e=rng.choice([6, 7]): E.plan.append((code, e))
        elif fail == 'absent':
            op['dest'] = NOBODY
        else:
            op['pre'] = lambda dw: (dw.cli.set_seed_key_algorithm(D.default_algo) if seedkey else None, dw.ctx.update(accept=True, respond=('ok',)))
        ops.append(op)
        kinds.append((op['kind'], fail))
    via = rng.choice(['facade', 'facade', 'query'])
    for op in ops:
        op['via'] = via
    results = DW.run_ops(ops, gap=rng.choice([0.01, 0.1, 0.5]), timeout=1, until_extra=4.0)
    obs = dict(operations=0, failures_checked=0, recoveries_checked=0, gate_checks=0, wrong_key_ops=0, error_codes_max=len(codes), hung=0)
    if not DW.finished:
        viol.add('client_hung', 'the client application task never finished its %d operations %s (states %s)' % (len(ops), kinds, DW.states()), **tag)
    M.m_live(viol, DW.W, 'dm14')
    ErrorInfo = DW.j.ErrorInfo
    prev_fail = None
    for k, r in enumerate(results):
        op = r['op']
        fail = op['fail']
        obs['operations'] += 1
        nxt_p = results[k + 1]['n_proceed'] if k + 1 < len(results) else None
        nxt_r = results[k + 1]['n_respond'] if k + 1 < len(results) else None
        pcs = DW.proceed_calls[r['n_proceed']:nxt_p]
        rsp = DW.responds[r['n_respond']:nxt_r]
        ntf = DW.notify_calls[r['n_notify']:(results[k + 1]['n_notify'] if k + 1 < len(results) else None)]
        frames = DW.W.bus.frames[r['f0']:r['f1']]
        what = '%s #%d (%d x %d bytes, fail=%s, seed/key %s, via %s, previous %s)' % (op['kind'], k, op['count'], op['size'], fail, seedkey, via, prev_fail if k else 'none')
        wtag = dict(fail=str(fail), after=str(prev_fail) if k else 'start', op=op['kind'], **tag)
        # ---- the gate: nothing is handed over / served before the right key arrived --------------------------------
        if seedkey and op.get('dest', DW.srv_addr) == DW.srv_addr:
            obs['gate_checks'] += 1
            for p in pcs:
                issued = [s for (t, s) in DW.seeds_issued if t <= p['t']]
                keys = [C.parse_dm14(f.data)['key'] for f in DW.W.bus.frames[:p['n_frames']] if f.src == 'C' and C.split_id(f.can_id)['pf'] == C.PF_DM14 and len(f.data) == 8]
                if not issued or not keys or keys[-1] != D.default_algo(issued[-1]):
                    viol.add('gate_bypassed', '%s: proceed ran although the last DM14 carried key %s and the seed issued was %s'
                             % (what, '%04X' % keys[-1] if keys else None, '%04X' % issued[-1] if issued else None), **wtag)
            if fail == 'wrong_key':
                obs['wrong_key_ops'] += 1
                if pcs or ntf:
                    viol.add('gate_bypassed', '%s: proceed ran %d / notify ran %d times for a wrong key' % (what, len(pcs), len(ntf)), **wtag)
                dm16 = [f for f in frames if f.src == 'S' and C.split_id(f.can_id)['pf'] in (C.PF_DM16,)]
                if dm16:
                    viol.add('gate_bypassed', '%s: the server sent a DM16 for a wrong key: %s' % (what, dm16[0].brief()), **wtag)
        # ---- outcome -----------------------------------------------------------------------------------------------
        if fail is None:
            if prev_fail is not None:
                obs['recoveries_checked'] += 1
            if r['exc']:
                viol.add('no_recovery' if prev_fail else 'operation_failed', '%s raised %s' % (what, r['exc']), **wtag)
            elif len(rsp) != 1 or rsp[0]['exc']:
                viol.add('no_recovery' if prev_fail else 'operation_failed', '%s: server application respond() ran %d times / raised %s' % (what, len(rsp), rsp[0]['exc'] if rsp else None), **wtag)
            elif op['kind'] == 'read':
                supplied = rsp[0]['data']
                got = r['ret']
                ok = (bytes(got) == supplied) if op['raw'] else (list(got or []) == D.decode_values(supplied, op['size'], op['signed']))
                if not ok:
                    viol.add('wrong_data_after_failure' if prev_fail else 'read_data', '%s returned %s, supplied %s' % (what, str(got)[:60], supplied.hex()[:40]), **wtag)
            else:
                if rsp[0]['ret'] != D.encode_values(op['values'], op['size']):
                    viol.add('wrong_data_after_failure' if prev_fail else 'write_data', '%s: server got %r' % (what, rsp[0]['ret']), **wtag)
        else:
            obs['failures_checked'] += 1
            dur = r['t1'] - r['t0']
            if r['exc'] is None:
                viol.add('failure_not_reported', '%s returned %s instead of raising' % (what, str(r['ret'])[:40]), **wtag)
            else:
                text = r.get('exc_text', '')
                code = {'wrong_key': 0x1003, 'refuse_proceed': 0x100}.get(fail, op.get('code'))
                if code is not None:
                    if hex(code) not in text.lower():
                        viol.add('error_text', '%s raised %r which does not name the error code %s' % (what, text[:100], hex(code)), **wtag)
                    elif code in ErrorInfo and ErrorInfo[code].lower() not in text.lower():
                        viol.add('error_text', '%s raised %r without the text %r' % (what, text[:100], ErrorInfo[code]), **wtag)
                if fail == 'absent' and dur > op['timeout'] + SLACK:
                    viol.add('timeout_late', '%s: absent server reported after %.3f s (max_timeout %.1f)' % (what, dur, op['timeout']), **wtag)
            if dur > op['timeout'] + SLACK:
                viol.add('timeout_late', '%s took %.3f s (max_timeout %.1f)' % (what, dur, op['timeout']), **wtag)
        prev_fail = fail
    idle = DW.idle_problems()
    if idle and DW.finished:
        viol.add('not_idle', 'after %s: %s' % (kinds, ', '.join(idle)), which=idle[0].split('=')[0], last=str(kinds[-1][1]), **tag)
    sig = repr((tuple(kinds), seedkey, via))
    sample = dict(case=case, seedkey=seedkey, via=via, ops=[(o['kind'], o['count'] * o['size'], o['fail'], hex(o.get('code', 0))) for o in ops],
                  results=[(str(r['ret'])[:30], (r['exc'] or '')[:90]) for r in results], states=DW.states(), frames=[f.brief() for f in DW.W.bus.frames[:10]])
    nontriv = any(results[i]['op']['fail'] and not results[i + 1]['op']['fail'] for i in range(len(results) - 1))
    res = dict(violations=list(viol), inconclusive=None, sig=sig, nontrivial=nontriv, obs=obs, sample=sample)
    if case.get('trace'):
        res['trace'] = [f.brief() for f in DW.W.bus.frames[:300]]
    DW.close()
    return res
