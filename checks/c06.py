"""C06 -- lost frames or a vanished peer end a transfer cleanly, never with corrupt data (fault enumeration)."""
import random

from vt.world import World
from vt import monitors as M
from vt.obsdict import observe_tables
from ref import codec as C

PROPERTY = 'C06'
LEVEL = 'fault_enumeration'
SLACK = 0.020
RULE = ('shapes = {BAM, RTS/CTS} x {J1939-21, J1939-22} x sizes giving P packets x windows {1,2,3,all} (P in {2,3,4,5,8,12} quick, 2..12 thorough, last packet full / partly filled); per '
        'shape one fault-free run fixes the number F of bus frames, then EVERY k in 1..F with (i) frame k lost, (ii) originator silent from its '
        'k-th frame on, (iii) responder silent from its k-th frame on (exhaustive over k), plus configuration variants (asymmetric windows, configured packet intervals, an unrelated periodic application timer firing while the session waits) and, in the thorough tier, two more latency assignments per shape and 15-25 sampled double losses per shape; each followed after the quiet point by a fresh transfer '
        'on the same pair; oracle = payload exact or nothing, session-table entry gone <= 1.25 s (3 s: FD originator waiting for the EOM ack) + 20 ms '
        'after the node\'s last session activity, abort frame present when an originator stopped waiting for CTS or a connection-mode responder '
        'stopped waiting for data, follow-up accepted and intact; a case = one (shape, fault kind) with all its k; non-trivial = >=1 faulted run '
        'that actually changed the exchange; distinct = shape x fault kind')
ASSUMPTIONS = ['time-out measured from the node\'s last session activity (frame sent by it or delivered to it), not from the fault',
               'the abort reason value is recorded, not judged', 'session tables observed through the private attributes _rcv_buffer/_snd_buffer '
               '(replaced by logging dict subclasses); if they cannot be observed the time-out sub-check reports not-observed']
MIN_OBS = {'faulted_runs': {'quick': 2000, 'thorough': 8000}, 'timeouts_measured': {'quick': 2000, 'thorough': 8000},
           'aborts_required_and_seen': {'quick': 300, 'thorough': 1500}, 'followups_checked': {'quick': 2000, 'thorough': 8000},
           'delivered_nothing': 100, 'delivered_exact': 100}

# if the private session tables cannot be observed (renamed by a refactor) the time-out sub-check is reported as not observed
MIN_OBS_UNLESS = {'timeouts_measured': 'tables_not_observed'}


def cases(tier, seed):
    out = []
    packets = [2, 3, 4, 5, 8, 12] if tier == 'quick' else list(range(2, 13))
    for layer in ('j1939-21', 'j1939-22'):
        unit = 60 if layer == 'j1939-22' else 7
        for P in packets:
            for rem in ([0, 3, 6] if tier == 'thorough' else [0, 3]):
                size = unit * P - rem
                if layer == 'j1939-21' and size < 9:
                    size = 9
                for mode, windows in (('cmdt', [1, 2, 3, 255]), ('bam', [1])):
                    for w in windows:
                        for fault in ('lose', 'sil_orig', 'sil_resp'):
                            if mode == 'bam' and fault == 'sil_resp':
                                continue
                            out.append(dict(layer=layer, mode=mode, size=size, w=w, fault=fault, seed=seed * 7919 + len(out)))
        # thorough: other latency assignments and sampled double losses
        if tier == 'thorough':
            for P in (2, 3, 5, 8):
                for w in (1, 2, 255):
                    for ls in (1, 2):
                        for fault in ('lose', 'sil_orig', 'sil_resp'):
                            out.append(dict(layer=layer, mode='cmdt', size=unit * P - 1, w=w, fault=fault, lat_seed=ls, seed=seed * 7919 + len(out)))
                    out.append(dict(layer=layer, mode='cmdt', size=unit * P - 1, w=w, fault='lose2', pairs=25, seed=seed * 7919 + len(out)))
                out.append(dict(layer=layer, mode='bam', size=unit * P - 1, w=1, fault='lose2', pairs=15, seed=seed * 7919 + len(out)))
        # configuration variants: asymmetric windows, configured packet intervals
        for P in ((3, 5) if tier == 'quick' else (2, 3, 5, 8, 12)):
            size = unit * P - 2
            for fault in ('lose', 'sil_orig', 'sil_resp'):
                out.append(dict(layer=layer, mode='cmdt', size=size, w=2, wb=5, fault=fault, seed=seed * 7919 + len(out)))
                out.append(dict(layer=layer, mode='cmdt', size=size, w=5, wb=2, fault=fault, seed=seed * 7919 + len(out)))
                out.append(dict(layer=layer, mode='cmdt', size=size, w=255, dt_interval=0.005, fault=fault, seed=seed * 7919 + len(out)))
                if fault != 'sil_resp':
                    out.append(dict(layer=layer, mode='bam', size=size, w=1, bam_interval=0.1, fault=fault, seed=seed * 7919 + len(out)))
                # an unrelated periodic application timer on both ECUs that fires while the session is waiting for its time-out
                out.append(dict(layer=layer, mode='cmdt', size=size, w=1, bg_timer=0.9, fault=fault, seed=seed * 7919 + len(out)))
                if fault != 'sil_resp':
                    out.append(dict(layer=layer, mode='bam', size=size, w=1, bg_timer=0.6, fault=fault, seed=seed * 7919 + len(out)))
                # zero latency on J1939-21: every reply is handled inside the send call that caused it (frames arrive while the job thread is
                # in the middle of its pass)
                if layer == 'j1939-21':
                    out.append(dict(layer=layer, mode='cmdt', size=size, w=2, zero=1.0, fault=fault, seed=seed * 7919 + len(out)))
                    out.append(dict(layer=layer, mode='cmdt', size=size, w=255, zero=0.5, fault=fault, seed=seed * 7919 + len(out)))
                # an impatient application re-submitting on the same pair as soon as the stack lets it (the receiver may still hold the faulted session)
                for e0 in ((0.03, 0.4) if tier == 'quick' else (0.03, 0.2, 0.4, 0.8)):
                    if fault != 'sil_resp':
                        out.append(dict(layer=layer, mode='bam', size=size, w=1, early=e0, fault=fault, seed=seed * 7919 + len(out)))
                    out.append(dict(layer=layer, mode='cmdt', size=size, w=2, early=e0, fault=fault, seed=seed * 7919 + len(out)))
    return out


def one_run(case, k, seed):
    """one transfer with fault k (k=0: fault-free); returns observation dict"""
    layer, mode, size, w, fault = case['layer'], case['mode'], case['size'], case['w'], case['fault']
    fd = layer == 'j1939-22'
    W = World(seed + 7717 * case.get('lat_seed', 0), layer, (0.0002, 0.003), case.get('zero', 0.0))
    sim = W.sim
    kwa = dict(max_cmdt_packets=w)
    kwb = dict(max_cmdt_packets=case.get('wb', w))
    if case.get('dt_interval') is not None:
        kwa['minimum_tp_rts_cts_dt_interval'] = case['dt_interval']
    if case.get('bam_interval') is not None:
        kwa['minimum_tp_bam_dt_interval'] = case['bam_interval']
    A = W.stack('A', **kwa)
    B = W.stack('B', **kwb)
    ca = W.ca(A, 0x10, identity_number=1)
    cb = W.ca(B, 0x20, identity_number=2)
    W.listen_ca(ca, 'A')
    W.listen_ca(cb, 'B')
    if case.get('bg_timer'):
        A.ecu.add_timer(case['bg_timer'], lambda c: True)
        B.ecu.add_timer(case['bg_timer'] * 1.07, lambda c: True)
    tabs = {'A': observe_tables(A, sim), 'B': observe_tables(B, sim)}
    W.run(0.01)
    if k:
        if fault == 'lose2':
            W.bus.lose = set(k)
        elif fault == 'lose':
            W.bus.lose = {k}
        elif fault == 'sil_orig':
            W.bus.silence = {'A': k}
        elif fault == 'sil_resp':
            W.bus.silence = {'B': k}
    rng = random.Random(seed)
    pay = [rng.randrange(256) for _ in range(size)]
    if mode == 'cmdt':
        args = (0, 0xD0, 0x20, 6, list(pay))
    else:
        args = (0, 0xFE, 0xF6, 6, list(pay))
    t0 = 0.02
    sim.at(t0, lambda: W.call('send', ca.send_pgn, *args))
    early = dict(ret=None, t=None, tries=0)
    payE = [(x ^ 0xC3) for x in pay]
    if case.get('early'):
        # an impatient application: it re-submits (another payload, same pair) every 40 ms until the stack accepts it -- possibly long before the
        # other side has given the faulted session up
        def retry():
            if early['ret'] is True or sim.now > t0 + 4.0:
                return
            early['tries'] += 1
            rec = W.call('early', ca.send_pgn, args[0], args[1], args[2], args[3], list(payE))
            early['ret'] = rec['ret']
            if rec['ret'] is True:
                early['t'] = sim.now
            else:
                sim.after(0.04, retry)
        sim.at(t0 + case['early'], retry)
    W.run(t0 + 9.5)
    n_frames_phase1 = len(W.bus.frames)
    wire1 = W.bus.wire_count
    sent_by1 = dict(W.bus.sent_by)
    deliv_B = list(W.deliv['B'])
    deliv_A = list(W.deliv['A'])
    table_state = {nm: nd.tables() for nm, nd in (('A', A), ('B', B))}
    pools = {nm: nd.pools() for nm, nd in (('A', A), ('B', B))} if fd else None
    live = W.liveness_problems()
    # follow-up on the same pair, faults off
    W.bus.faults_active = False
    pay2 = [(x ^ 0x5A) for x in pay]
    n_b = len(W.deliv['B'])
    fol = {}
    sim.at(sim.now + 0.01, lambda: fol.update(W.call('send2', ca.send_pgn, args[0], args[1], args[2], args[3], list(pay2))))
    W.run(sim.now + 9.0)
    fol_deliv = [d for d in W.deliv['B'][n_b:]]
    res = dict(early=early, payE=bytes(payE), W=W, frames=W.bus.frames, n1=n_frames_phase1, wire1=wire1, sent_by1=sent_by1, pay=bytes(pay), pay2=bytes(pay2), deliv_A=deliv_A,
               deliv_B=deliv_B, tabs=tabs, table_state=table_state, pools=pools, live=live, fol=fol, fol_deliv=fol_deliv,
               live2=W.liveness_problems(), first_call=W.calls[0] if W.calls else None)
    return res


def run_case(case):
    layer, mode, size, w, fault = case['layer'], case['mode'], case['size'], case['w'], case['fault']
    fd = layer == 'j1939-22'
    viol = M.Violations()
    obs = dict(faulted_runs=0, effective_faults=0, timeouts_measured=0, aborts_required_and_seen=0, followups_checked=0, delivered_exact=0,
               delivered_nothing=0, tables_not_observed=0, timeout_max_ms=0, eomack_wait_max_ms=0, early_accepted=0, early_delivered=0)
    base = one_run(case, 0, case['seed'])
    base_sig = [(f.src, f.can_id, f.data) for f in base['frames'][:base['n1']]]
    ok = judge(case, base, 0, viol, obs, fault_free=True)
    base['W'].close()
    if fault in ('lose', 'lose2'):
        F = base['wire1']
    elif fault == 'sil_orig':
        F = base['sent_by1'].get('A', 0)
    else:
        F = base['sent_by1'].get('B', 0)
    reasons = set()
    points = list(range(1, F + 1))
    if fault == 'lose2':
        prng = random.Random(case['seed'])
        allp = [(a, b) for a in range(1, F + 1) for b in range(a + 1, F + 2)]
        prng.shuffle(allp)
        points = allp[:case.get('pairs', 20)]
    for k in points:
        r = one_run(case, k, case['seed'])
        obs['faulted_runs'] += 1
        sig = [(f.src, f.can_id, f.data) for f in r['frames'][:r['n1']] if not (f.lost or f.silenced)]
        if sig != base_sig:
            obs['effective_faults'] += 1
        judge(case, r, k, viol, obs, reasons=reasons)
        r['W'].close()
    sample = dict(case=case, fault_points=F, baseline_frames=[f.brief() for f in base['frames'][:min(base['n1'], 10)]],
                  abort_reasons_seen=sorted(reasons))
    return dict(violations=list(viol), inconclusive=None if F > 0 else 'baseline run produced no frames', sig=repr((layer, mode, size, w, case.get('wb'), case.get('dt_interval'), case.get('bam_interval'), case.get('lat_seed'), case.get('bg_timer'), case.get('early'), case.get('zero'), fault)),
                nontrivial=obs['effective_faults'] > 0, obs=obs, sample=sample)


def is_abort(fr, fd):
    f = C.split_id(fr.can_id)
    if fd:
        return f['pf'] == C.PF_FD_TP_CM and len(fr.data) >= 1 and (fr.data[0] & 0xF) == C.FD_ABORT
    return f['pf'] == C.PF_TP_CM and len(fr.data) >= 1 and fr.data[0] == C.TP_ABORT


def judge(case, r, k, viol, obs, fault_free=False, reasons=None):
    layer, mode, size, w, fault = case['layer'], case['mode'], case['size'], case['w'], case['fault']
    fd = layer == 'j1939-22'
    tag = dict(layer=layer, mode=mode, fault='none' if fault_free else fault)
    where = '%s %s size=%d w=%d %s k=%s' % (layer, mode, size, w, 'fault-free' if fault_free else fault, k)
    W = r['W']
    for s in W.stacks:
        for (t, tmo, d, what_) in s.sleep_problems[:1]:
            viol.add('sleeps_past_deadline', '%s: %s: at %.4f the job thread went to sleep on an empty wake-up queue for %s s although %s is due at %.4f'
                     % (where, s.name, t, tmo, what_, d), what=what_.split('[')[0].split(' (')[0], **tag)
    for p in r['live2']:
        viol.add(p['kind'], '%s: %s %s at %s' % (where, p['thread'], p['exc'], p['where']), where=p['where'], exc=p['exc'].split('(')[0], **tag)
    # 1. payload exact or nothing at the receiver
    exp_pgn = 0xD000 if mode == 'cmdt' else 0xFEF6
    got = [d for d in r['deliv_B']]
    exact = [d for d in got if d[4] == r['pay'] and M.norm_pgn(d[2]) == exp_pgn and d[3] == 0x10]
    other = [d for d in got if d not in exact]
    if case.get('early'):
        # the early re-submission may or may not get through; if it does it must be exact, once
        exE = [d for d in other if d[4] == r['payE'] and M.norm_pgn(d[2]) == exp_pgn and d[3] == 0x10]
        other = [d for d in other if d not in exE]
        if len(exE) > 1:
            viol.add('duplicate_delivery', '%s: early re-submission delivered %d times' % (where, len(exE)), **tag)
        if exE:
            obs['early_delivered'] = obs.get('early_delivered', 0) + 1
        if r['early']['ret'] is True:
            obs['early_accepted'] = obs.get('early_accepted', 0) + 1
    if len(exact) > 1:
        viol.add('duplicate_delivery', '%s: payload delivered %d times' % (where, len(exact)), **tag)
    for d in other:
        kind = 'truncated_delivery' if len(d[4]) < len(r['pay']) and r['pay'].startswith(d[4][:max(1, len(d[4]))]) else 'corrupt_delivery'
        viol.add(kind, '%s: receiver got pgn=%05X sa=%02X len=%d (submitted len %d) %s...' % (where, d[2], d[3], len(d[4]), len(r['pay']), d[4][:10].hex()), **tag)
    if fault_free and len(exact) != 1 and not case.get('early'):
        viol.add('missing_delivery', '%s: fault-free transfer not delivered' % where, **tag)
    if exact:
        obs['delivered_exact'] += 1
    elif not other:
        obs['delivered_nothing'] += 1
    # originator side: only the EOM ack notification may be delivered
    for d in r['deliv_A']:
        okk = M.norm_pgn(d[2]) == exp_pgn and len(r['deliv_A']) <= (2 if case.get('early') else 1)       # the end-of-message acknowledgement notification (form not judged), once
        if not (okk and mode == 'cmdt' and d[3] == 0x20):
            viol.add('unexpected_delivery', '%s: originator listener got pgn=%05X sa=%02X len=%d' % (where, d[2], d[3], len(d[4])), **tag)
    # 2. M-TMO: every table entry disappears within bound of the node's last session activity
    frames1 = r['frames'][:r['n1']]
    sent_t = {'A': [], 'B': []}
    for f in frames1:
        if f.src in sent_t:
            sent_t[f.src].append(f.t)
    recv_t = {'A': [], 'B': []}
    for (t, nm, idx) in W.bus.delivered:
        if idx < r['n1'] and nm in recv_t:
            recv_t[nm].append(t)
    t_end1 = 0.02 + 9.5
    for nm in ('A', 'B'):
        tabs = r['tabs'][nm]
        if not tabs:
            obs['tables_not_observed'] += 1
            continue
        acts = sorted(sent_t[nm] + recv_t[nm])
        for tname, od in tabs.items():
            openk = {}
            for (t, op, key, ln) in od.log:
                if t > t_end1:
                    break
                if op == 'set':
                    openk[key] = t
                elif op == 'del' and key in openk:
                    t_open = openk.pop(key)
                    # frames the node emits in the very pass that releases the entry (its time-out abort) are not 'activity'
                    last = max([a for a in acts if a <= t - 1e-4] + [t_open])
                    wait = t - last
                    obs['timeouts_measured'] += 1
                    bound = 1.25
                    if fd and nm == 'A' and mode == 'cmdt':
                        bound = 3.0
                        obs['eomack_wait_max_ms'] = max(obs['eomack_wait_max_ms'], int(wait * 1000))
                    else:
                        obs['timeout_max_ms'] = max(obs['timeout_max_ms'], int(wait * 1000))
                    if wait > bound + SLACK:
                        viol.add('timeout_exceeded', '%s: %s.%s entry %#x released %.3f s after the node\'s last session activity (bound %.2f s)'
                                 % (where, nm, tname, key, wait, bound), node='orig' if nm == 'A' else 'resp', **tag)
            for key, t_open in openk.items():
                viol.add('session_stuck', '%s: %s.%s entry %#x opened at %.3f still present 9.5 s later' % (where, nm, tname, key, t_open),
                         table=tname, node='orig' if nm == 'A' else 'resp', **tag)
    if not any(r['tabs'].values()):
        # behavioural fall-back: table sizes at the quiet point
        for nm in ('A', 'B'):
            for tname, v in r['table_state'][nm].items():
                if v:
                    viol.add('session_stuck', '%s: %s.%s holds %d entries at the quiet point' % (where, nm, tname, v), table=tname, **tag)
    if fd and r['pools']:
        for nm in ('A', 'B'):
            for pn, v in r['pools'][nm].items():
                if v is not None and not all(v):
                    viol.add('pool_not_full', '%s: %s %s pool %s at the quiet point' % (where, nm, pn, v), pool=pn, **tag)
    # 3. abort frames
    if mode == 'cmdt' and not fault_free and not case.get('early'):
        aborts = [(f, C.split_id(f.can_id)) for f in frames1 if is_abort(f, fd)]
        for f, idf in aborts:
            reason = f.data[8] if fd else f.data[1]
            if reasons is not None:
                reasons.add(reason)
            pgn = C.un_le(f.data[9:12]) if fd else C.un_le(f.data[5:8])
            if pgn != 0xD000:
                viol.add('abort_pgn', '%s: abort frame carries pgn %05X: %s' % (where, pgn, f.brief()), **tag)
            if (idf['sa'], idf['ps']) not in ((0x10, 0x20), (0x20, 0x10)):
                viol.add('abort_addressing', '%s: abort frame %s' % (where, f.brief()), **tag)
        unit = 60 if fd else 7
        npk = (size + unit - 1) // unit
        # originator: had packets left to send, never got an abort, never completed -> must have sent an abort
        a_got_abort = any(is_abort(r['frames'][idx], fd) for (t, nm, idx) in W.bus.delivered if nm == 'A' and idx < r['n1'])
        b_got_abort = any(is_abort(r['frames'][idx], fd) for (t, nm, idx) in W.bus.delivered if nm == 'B' and idx < r['n1'])
        dt_pf = C.PF_FD_TP_DT if fd else C.PF_TP_DT
        a_dts = set()
        for f in frames1:
            if f.src == 'A' and C.split_id(f.can_id)['pf'] == dt_pf and len(f.data) > 4:
                a_dts.add(C.un_le(f.data[1:4]) if fd else f.data[0])
        a_done = any(d[3] == 0x20 for d in r['deliv_A'])
        a_abort = [f for f, idf in aborts if f.src == 'A']
        b_abort = [f for f, idf in aborts if f.src == 'B']
        if not a_done and not a_got_abort and len(a_dts) < npk:
            if a_abort:
                obs['aborts_required_and_seen'] += 1
            else:
                viol.add('abort_missing', '%s: originator gave up waiting for a CTS (sent %d of %d packets, no abort received) without sending a connection abort'
                         % (where, len(a_dts), npk), node='orig', **tag)
        # responder: opened a session (RTS delivered), data incomplete, no abort received -> abort
        rts_seen = False
        b_dts = set()
        for (t, nm, idx) in W.bus.delivered:
            if nm != 'B' or idx >= r['n1']:
                continue
            f = r['frames'][idx]
            idf = C.split_id(f.can_id)
            if idf['pf'] == (C.PF_FD_TP_CM if fd else C.PF_TP_CM) and len(f.data) >= 1 and ((fd and (f.data[0] & 0xF) == 0) or (not fd and f.data[0] == 16)):
                rts_seen = True
            if idf['pf'] == dt_pf and len(f.data) > 4:
                b_dts.add(C.un_le(f.data[1:4]) if fd else f.data[0])
        if rts_seen and not exact and not b_got_abort and len(b_dts) < npk:
            if b_abort:
                obs['aborts_required_and_seen'] += 1
            else:
                viol.add('abort_missing', '%s: responder gave up waiting for data (%d of %d packets received, no abort received) without sending a connection abort'
                         % (where, len(b_dts), npk), node='resp', **tag)
    # 4. follow-up
    if not fault_free:
        obs['followups_checked'] += 1
    fol = r['fol']
    if fol.get('ret') is not True:
        viol.add('followup_refused', '%s: follow-up send_pgn on the same pair returned %r / raised %s' % (where, fol.get('ret'), fol.get('exc')), **tag)
    else:
        okf = [d for d in r['fol_deliv'] if d[4] == r['pay2']]
        if len(okf) != 1:
            viol.add('followup_not_delivered', '%s: follow-up transfer delivered %d times (other deliveries: %s)'
                     % (where, len(okf), [(len(d[4])) for d in r['fol_deliv'] if d[4] != r['pay2']][:3]), **tag)
    return True


def coverage(results, tier):
    return dict(exhaustive=True, explanation='exhaustive over the fault position k for every listed shape and fault kind')
