"""Deadline races (part of C08): the frame a session is waiting for arrives within about a millisecond of the instant the session's
time-out expires, while both threads of the stack (job thread = the time-out, receive thread = the frame) are pre-empted densely around
that instant.  Either side may win; whichever does, nothing may break."""
import random

from vt.world import World
from vt import monitors as M
from vt import preempt as PRE
from vt.bus import ScriptNode
from ref import codec as C

SA, RA = 0x10, 0x30

# (name, direction, which time-out of the stack is raced)
SHAPES = [
    ('cts_at_t3', 'out'),        # originator waits for the first CTS (T3 = 1.25 s after its RTS)
    ('cts2_at_t3', 'out'),       # ... for the second CTS (T3 after its last data packet)
    ('eom_at_end', 'out'),       # ... for the end-of-message acknowledge (T3 on J1939-21, T5 = 3 s on J1939-22)
    ('dt_at_t2', 'in'),          # responder waits for the first data packet (T2 = 1.25 s after its CTS)
    ('dt_mid_at_t1', 'in'),      # ... for the next data packet (T1 = 0.75 s after the previous one)
    ('bam_dt_at_t1', 'bam'),     # broadcast receiver waits for the first data packet (T1 after the announcement)
    ('hold_at_th', 'out'),       # originator was told to hold (CTS 0): the real CTS arrives when the hold time-out (0.5 s -> T4 1.05 s) expires
]


def cases(tier, seed):
    rng = random.Random(8800 + seed)
    out = []
    n = 6 if tier == 'quick' else 60
    for layer in ('j1939-21', 'j1939-22'):
        for (shape, direction) in SHAPES:
            for i in range(n):
                out.append(dict(kind='deadline_race', layer=layer, shape=shape, dir=direction, delta=rng.choice([rng.uniform(-0.004, 0.0005), rng.uniform(-0.002, 0.0)]),
                                w=rng.choice([1, 2, 255]), packets=rng.choice([2, 3, 5]), seed=rng.randrange(1 << 30)))
    return out


class LatePeer(ScriptNode):
    """plays the other end of one transfer and delays exactly one frame until the stack's time-out is (about to be) due"""

    def __init__(self, bus, sim, fd, shape, delta, window_on):
        super().__init__(bus, 'R')
        self.sim, self.fd, self.shape, self.delta = sim, fd, shape, delta
        self.window_on = window_on         # callable(t): switch dense pre-emption on around instant t
        self.rx = None
        self.out = None
        self.completed = []
        self.late_done = False
        self.late_at = None

    def tx(self, pf, da, data, prio=7):
        self.send(C.make_id(prio, 0, pf, da, RA), data, fd=self.fd)

    def later(self, t_ref, timeout, fn, *a):
        """send at t_ref + timeout + delta (t_ref = the instant the stack armed that time-out = when it sent / got the frame before)"""
        t = t_ref + timeout + self.delta
        self.late_done = True
        self.late_at = t
        self.window_on(t)
        self.sim.at(t, fn, *a)

    def cts(self, sa, nxt, n):
        st = self.rx
        if self.fd:
            self.tx(C.PF_FD_TP_CM, sa, C.fdcm_cts(st['ses'], nxt, n, st['pgn']))
        else:
            self.tx(C.PF_TP_CM, sa, C.tpcm_cts(n, nxt, st['pgn']))

    def eom(self, sa):
        st = self.rx
        if st is None:
            return
        if self.fd:
            self.tx(C.PF_FD_TP_CM, sa, C.fdcm_eoma(st['ses'], st['size'], st['pgn'], st['n']))
        else:
            self.tx(C.PF_TP_CM, sa, C.tpcm_eom(st['size'], st['n'], st['pgn']))
        self.completed.append((st['size'], bytes(b''.join(st['chunks'].get(i, b'') for i in range(1, st['n'] + 1))[:st['size']])))
        self.rx = None

    # ---- the stack is the originator ---------------------------------------------------------------
    def on_frame(self, fr):
        if not fr.ext:
            return
        f = C.split_id(fr.can_id)
        if f['ps'] != RA:
            return
        d = fr.data
        sa = f['sa']
        cm_pf = C.PF_FD_TP_CM if self.fd else C.PF_TP_CM
        dt_pf = C.PF_FD_TP_DT if self.fd else C.PF_TP_DT
        if f['pf'] == cm_pf:
            m = C.parse_fdcm(d) if self.fd else C.parse_tpcm(d)
            if m['type'] == 'RTS':
                n = m['segments'] if self.fd else m['packets']
                self.rx = st = dict(ses=m.get('session'), size=m['size'], n=n, pgn=m['pgn'], chunks={}, got=0, limit=m['limit'], granted=0)
                first = min(m['limit'], n, 1 if self.shape == 'cts2_at_t3' else 2)
                st['granted'] = first
                if self.shape == 'cts_at_t3' and not self.late_done:
                    self.later(fr.t, 1.25, self.cts, sa, 1, first)
                elif self.shape == 'hold_at_th' and not self.late_done:
                    # hold now, the real CTS when the hold time-out of the originator expires (Th = 0.5 s after the hold; T4 = 1.05 s)
                    self.sim.after(0.001, self.cts, sa, 1, 0)
                    self.later(fr.t + 0.001, 0.5 if not self.fd else 0.5, self.cts, sa, 1, first)
                else:
                    self.sim.after(0.001, self.cts, sa, 1, first)
            elif m['type'] == 'EOMS' and self.fd and self.rx is not None:
                if self.shape == 'eom_at_end' and not self.late_done:
                    self.later(fr.t, 3.0, self.eom, sa)
                else:
                    self.eom(sa)
            elif m['type'] == 'ABORT':
                self.rx = None
                self.out = None
            elif m['type'] == 'CTS' and self.out is not None:
                self.o_cts(fr, m['next'], m['n'])
            elif m['type'] in ('EOM', 'EOMA') and self.out is not None:
                self.out['acked'] = True
                self.out = None
        elif f['pf'] == dt_pf and self.rx is not None and len(d) > 1:
            st = self.rx
            if self.fd:
                m = C.parse_fddt(d)
                seq, data = m['seg'], m['data']
            else:
                seq, data = d[0], d[1:]
            st['chunks'][seq] = bytes(data[:60 if self.fd else 7])
            st['got'] = len(st['chunks'])
            st['granted'] -= 1
            if st['got'] >= st['n']:
                if not self.fd:
                    if self.shape == 'eom_at_end' and not self.late_done:
                        self.later(fr.t, 1.25, self.eom, sa)
                    else:
                        self.eom(sa)
            elif st['granted'] <= 0:
                nxt = st['got'] + 1
                g = min(st['limit'], st['n'] - st['got'], 2)
                st['granted'] = g
                if self.shape == 'cts2_at_t3' and not self.late_done:
                    self.later(fr.t, 1.25, self.cts, sa, nxt, g)
                else:
                    self.cts(sa, nxt, g)

    # ---- the stack is the responder -----------------------------------------------------------------
    def start(self, pay, pgn, ses):
        unit = 60 if self.fd else 7
        n = (len(pay) + unit - 1) // unit
        self.out = dict(pay=bytes(pay), pgn=pgn, n=n, ses=ses, sent=0, acked=False)
        if self.fd:
            self.tx(C.PF_FD_TP_CM, SA, C.fdcm_rts(ses, len(pay), 255, pgn), prio=6)
        else:
            self.tx(C.PF_TP_CM, SA, C.tpcm_rts(len(pay), 255, pgn), prio=6)
        return self.out

    def dt(self, k):
        st = self.out
        if st is None:
            return
        unit = 60 if self.fd else 7
        chunk = st['pay'][k * unit:(k + 1) * unit]
        if self.fd:
            self.tx(C.PF_FD_TP_DT, SA, C.fd_dt(st['ses'], k + 1, chunk))
        else:
            self.tx(C.PF_TP_DT, SA, C.tp_dt(k + 1, chunk))
        st['sent'] = max(st['sent'], k + 1)
        if st['sent'] >= st['n'] and self.fd and not st.get('eoms'):
            st['eoms'] = True
            self.sim.after(0.0005, self.tx, C.PF_FD_TP_CM, SA, C.fdcm_eoms(st['ses'], len(st['pay']), st['pgn']))

    def o_cts(self, fr, nxt, n):
        st = self.out
        t = 0.0
        for i in range(n):
            k = nxt - 1 + i
            if k >= st['n']:
                break
            if self.shape == 'dt_at_t2' and not self.late_done and k == 0:
                self.later(fr.t, 1.25, self.dt, k)
                t = self.late_at - self.sim.now
                continue
            if self.shape == 'dt_mid_at_t1' and not self.late_done and k == 1:
                # the previous packet goes out at now + t; the stack re-arms T1 when it gets it (one latency later, at most 1 ms)
                self.later(self.sim.now + t + 0.0005, 0.75, self.dt, k)
                t = self.late_at - self.sim.now
                continue
            t += 0.0005
            self.sim.after(t, self.dt, k)

    def bam(self, pay, pgn, ses):
        unit = 60 if self.fd else 7
        n = (len(pay) + unit - 1) // unit
        if self.fd:
            self.send(C.make_id(6, 0, C.PF_FD_TP_CM, 255, RA), C.fdcm_bam(ses, len(pay), pgn), fd=True)
        else:
            self.send(C.make_id(6, 0, C.PF_TP_CM, 255, RA), C.tpcm_bam(len(pay), pgn))
        t0 = self.sim.now
        self.later(t0 + 0.0005, 0.75, self._bam_dt, pay, 0, n, ses)

    def _bam_dt(self, pay, k, n, ses):
        unit = 60 if self.fd else 7
        chunk = bytes(pay[k * unit:(k + 1) * unit])
        if self.fd:
            self.send(C.make_id(7, 0, C.PF_FD_TP_DT, 255, RA), C.fd_dt(ses, k + 1, chunk), True)
        else:
            self.send(C.make_id(7, 0, C.PF_TP_DT, 255, RA), C.tp_dt(k + 1, chunk))
        if k + 1 < n:
            self.sim.after(0.012 if self.fd else 0.052, self._bam_dt, pay, k + 1, n, ses)
        elif self.fd:
            self.sim.after(0.012, self.send, C.make_id(7, 0, C.PF_FD_TP_CM, 255, RA), C.fdcm_eoms(ses, len(pay), 0xFEF6), True)


def run_case(case):
    layer = case['layer']
    fd = layer == 'j1939-22'
    shape, direction = case['shape'], case['dir']
    rng = random.Random(case['seed'])
    W = World(case['seed'], layer, (0.0001, 0.001))
    sim = W.sim
    viol = M.Violations()
    tag = dict(layer=layer, shape=shape)
    pre_on = [False]
    holds = [0]
    windows = []

    def window_on(t):
        windows.append(t)
        sim.at(max(sim.now, t - 0.001), lambda: pre_on.__setitem__(0, True))
        sim.at(t + 0.008, lambda: pre_on.__setitem__(0, False))
    sim.trace_hook = PRE.random_tracer(sim, case['seed'] ^ 0x7ACE, p=0.12, holds=(0.0002, 0.0005, 0.001), counter=holds, max_holds=500, on=pre_on)
    A = W.stack('A', max_cmdt_packets=case['w'], rx_thread=True,
                rx_trace=PRE.random_tracer(sim, case['seed'] ^ 0x7ACF, p=0.12, holds=(0.0002, 0.0005, 0.001), counter=holds, max_holds=500, on=pre_on))
    sim.trace_hook = None
    ca = W.ca(A, SA, identity_number=1)
    W.listen_ca(ca, 'A')
    R = LatePeer(W.bus, sim, fd, shape, case['delta'], window_on)
    unit = 60 if fd else 7
    size = unit * case['packets'] - rng.randrange(0, unit - 1)
    if not fd and size < 9:
        size = 9
    if fd and size < 61:
        size = 61
    pay = [rng.randrange(256) for _ in range(size)]
    W.run(0.01)
    first = {}
    t0 = 0.02
    if direction == 'out':
        sim.at(t0, lambda: first.update(W.call('send', ca.send_pgn, 0, 0xD0, RA, 6, list(pay))))
    elif direction == 'in':
        sim.at(t0, R.start, pay, 0xD000, rng.randrange(16) if fd else 0)
    else:
        sim.at(t0, R.bam, pay, 0xFEF6, rng.randrange(16) if fd else 0)
    W.run(t0 + 9.0)
    obs = dict(races=1, race_holds=holds[0], race_completed=0, race_timed_out=0, race_followups=0)
    what = '%s %s delta %+.2f ms w=%d %d packets' % (layer, shape, case['delta'] * 1000, case['w'], case['packets'])
    if not windows:
        viol.add('harness', '%s: the late frame was never scheduled' % what, **tag)
    # 1. nothing broke: threads alive and parked, tables empty, pools full
    M.m_live(viol, W, layer)
    M.m_quiet(viol, W, layer, what='8 s after the raced time-out (%s)' % what)
    # 2. payload exact or nothing, at most once
    if direction == 'out':
        got = [p for (sz, p) in R.completed]
        if first.get('ret') is not True:
            viol.add('send_refused', '%s: send_pgn returned %r / raised %s' % (what, first.get('ret'), first.get('exc')), **tag)
    else:
        got = [d[4] for d in W.deliv['A'] if d[3] == RA]
    exact = [g for g in got if g == bytes(pay)]
    other = [g for g in got if g != bytes(pay)]
    if len(exact) > 1:
        viol.add('lost_or_duplicated', '%s: payload delivered %d times' % (what, len(exact)), how='dup', **tag)
    for g in other:
        viol.add('corrupt_delivery', '%s: a payload of %d bytes arrived that is not the %d bytes sent' % (what, len(g), len(pay)), **tag)
    if exact:
        obs['race_completed'] = 1
    else:
        obs['race_timed_out'] = 1
    # 3. the pair is usable again
    pre_on[0] = False
    R.shape = 'none'
    R.window_on = lambda t: None
    R.rx = None
    R.out = None
    pay2 = [x ^ 0x77 for x in pay] + [9]
    n_a = len(W.deliv['A'])
    n_c = len(R.completed)
    fol = {}
    if direction == 'out':
        fol.update(W.call('send2', ca.send_pgn, 0, 0xD0, RA, 6, list(pay2)))
    elif direction == 'in':
        R.start(pay2, 0xD000, rng.randrange(16) if fd else 0)
    else:
        R.late_done = True
        R.window_on = lambda t: None
        R.delta = -0.7          # an ordinary broadcast: first packet 50 ms after the announcement
        R.bam(pay2, 0xFEF6, rng.randrange(16) if fd else 0)
    W.run(sim.now + 6.0)
    obs['race_followups'] = 1
    if direction == 'out':
        ok = fol.get('ret') is True and [p for (sz, p) in R.completed[n_c:]] == [bytes(pay2)]
    else:
        ok = [d[4] for d in W.deliv['A'][n_a:] if d[3] == RA] == [bytes(pay2)]
    if not ok:
        viol.add('followup_failed', '%s: the next transfer on the same pair did not complete (send_pgn %r; deliveries %s)'
                 % (what, fol.get('ret'), [len(d[4]) for d in W.deliv['A'][n_a:]] if direction != 'out' else [sz for (sz, p) in R.completed[n_c:]]), **tag)
    M.m_live(viol, W, layer)
    sig = repr(('deadline_race', layer, shape, case['w'], case['packets']))
    sample = dict(case=case, late_frame_at=windows[:1], outcome='completed' if exact else 'timed out', holds=holds[0], frames=[f.brief() for f in W.bus.frames[:14]])
    res = dict(violations=list(viol), inconclusive=None, sig=sig, nontrivial=holds[0] > 0, obs=obs, sample=sample)
    if case.get('trace'):
        res['trace'] = [f.brief() for f in W.bus.frames[:200]]
    W.close()
    return res
