"""C15 -- identifier and NAME codecs are exact inverses on their whole domain (M-CODEC)."""
import random

from vt.world import World, load_j1939
from vt.bus import Frame
from vt import monitors as M
from ref import codec as C

PROPERTY = 'C15'
LEVEL = 'exploration'
RULE = ('cases = shards of: (a) 29-bit identifiers - quick: all 2^18 PGN values x 4 (priority, SA) corner combinations + 300k random identifiers; '
        'thorough: ALL 2^29 identifiers (64 shards); each parsed by MessageId(can_id=x), compared field by field with the reference split, re-composed '
        'from the fields and compared with x, and its PGN pushed through ParameterGroupNumber (value, DP/PF/PS, PDU1/PDU2 class, from_message_id); '
        '(b) NAME - every field swept over its whole range (identity number strided in quick) with the other fields at 0 / all-ones / random, walking '
        'one/zero 64-bit values, random 64-bit values; built from value, from 8 LE bytes and from fields, compared with the reference bit positions '
        '(J1939-81), reserved bit reading 0; (c) arbitration - for NAME pairs differing in exactly one bit (all 63 non-reserved positions x several '
        'backgrounds) an operational CA fed the contender\'s claim through the real ECU must defend iff its own NAME is numerically lower; '
        'non-trivial = every shard; distinct = shard id')
ASSUMPTIONS = ['the extended-data-page bit is not represented by ParameterGroupNumber and is compared modulo that bit (as the property states)',
               'reference bit positions are taken from SAE J1939-21 5.2 and J1939-81 4.1.1']
MIN_OBS = {'identifiers_checked': {'quick': 1300000, 'thorough': 536870912}, 'names_checked': {'quick': 400000, 'thorough': 8000000},
           'arbitration_contests': {'quick': 500, 'thorough': 2000}, 'pgn_objects_checked': {'quick': 262144, 'thorough': 262144}}


def cases(tier, seed):
    out = []
    if tier == 'quick':
        for s in range(16):
            out.append(dict(kind='pgn_sweep', lo=s * (1 << 14), hi=(s + 1) * (1 << 14), seed=seed))
        for s in range(8):
            out.append(dict(kind='id_random', n=40000, seed=seed * 100 + s))
    else:
        for s in range(128):
            out.append(dict(kind='id_range', lo=s * (1 << 22), hi=(s + 1) * (1 << 22), seed=seed))
        for s in range(16):
            out.append(dict(kind='pgn_sweep', lo=s * (1 << 14), hi=(s + 1) * (1 << 14), seed=seed))
    # NAME field sweeps
    for (nm, sh, w) in C.NAME_FIELDS:
        if nm == 'reserved_bit':
            continue
        total = 1 << w
        nsh = 1 if total <= 4096 else (8 if tier == 'quick' else 16)
        for s in range(nsh):
            out.append(dict(kind='name_field', field=nm, shard=s, nshards=nsh, stride=(13 if (tier == 'quick' and w > 12) else 1), seed=seed * 7 + s))
    for s in range(4 if tier == 'quick' else 32):
        out.append(dict(kind='name_random', n=60000 if tier == 'quick' else 150000, seed=seed * 1000 + s))
    out.append(dict(kind='name_walk', seed=seed))
    for s in range(4):
        out.append(dict(kind='arbitration', seed=seed * 10 + s, backgrounds=3 if tier == 'quick' else 10))
    # the same parse as an application sees it: identifiers fed into a real ECU, (priority, PGN, source address) handed to an unfiltered listener
    for s in range(2 if tier == 'quick' else 8):
        out.append(dict(kind='ecu_rx', seed=seed * 10 + s))
    return out


def _check_id(j, x, viol, tag):
    mid = j.MessageId(can_id=x)
    prio = (x >> 26) & 7
    pgn = (x >> 8) & 0x3FFFF
    sa = x & 0xFF
    if mid.priority != prio or mid.parameter_group_number != pgn or mid.source_address != sa:
        viol.add('id_parse', 'MessageId(can_id=%08X) -> priority %r pgn %r sa %r, reference %d %05X %02X'
                 % (x, mid.priority, mid.parameter_group_number, mid.source_address, prio, pgn, sa), **tag)
        return
    if mid.can_id != x:
        viol.add('id_roundtrip', 'MessageId(can_id=%08X).can_id == %08X' % (x, mid.can_id), **tag)
    m2 = j.MessageId(priority=prio, parameter_group_number=pgn, source_address=sa)
    if m2.can_id != x:
        viol.add('id_compose', 'MessageId(priority=%d, pgn=%05X, sa=%02X).can_id == %08X, reference %08X' % (prio, pgn, sa, m2.can_id, x), **tag)


def _check_pgn(j, x, viol, tag):
    """x: identifier; PGN class against the reference, modulo the EDP bit"""
    f = C.split_id(x)
    mid = j.MessageId(can_id=x)
    p = j.ParameterGroupNumber()
    p.from_message_id(mid)
    if (p.data_page, p.pdu_format, p.pdu_specific) != (f['dp'], f['pf'], f['ps']):
        viol.add('pgn_from_id', 'from_message_id(%08X) -> dp %r pf %r ps %r, reference %d %02X %02X' % (x, p.data_page, p.pdu_format, p.pdu_specific, f['dp'], f['pf'], f['ps']), **tag)
        return
    want = (f['dp'] << 16) | (f['pf'] << 8) | f['ps']
    if p.value != want:
        viol.add('pgn_value', 'PGN value of %08X is %r, reference %05X' % (x, p.value, want), **tag)
    if bool(p.is_pdu1_format) != f['pdu1'] or bool(p.is_pdu2_format) != (not f['pdu1']):
        viol.add('pgn_class', 'PDU1/PDU2 classification of PF %02X: pdu1=%r pdu2=%r' % (f['pf'], p.is_pdu1_format, p.is_pdu2_format), **tag)
    q = j.ParameterGroupNumber(f['dp'], f['pf'], f['ps'])
    if q.value != want or (q.data_page, q.pdu_format, q.pdu_specific) != (f['dp'], f['pf'], f['ps']):
        viol.add('pgn_ctor', 'ParameterGroupNumber(%d, %02X, %02X).value == %r' % (f['dp'], f['pf'], f['ps'], q.value), **tag)


RES = 1 << 48


def _check_name(j, v, viol, tag):
    want = v & ~RES
    n = j.Name(value=v)
    f = C.name_fields(want)
    got = {k: getattr(n, k) for k, _, _ in C.NAME_FIELDS}
    if got != f:
        bad = [k for k in f if got[k] != f[k]]
        viol.add('name_fields', 'Name(value=%016X): field %s = %r, J1939-81 position gives %r' % (v, bad[0], got[bad[0]], f[bad[0]]), field=bad[0], **tag)
        return
    if n.value != want:
        viol.add('name_value', 'Name(value=%016X).value == %016X (reserved bit must read 0)' % (v, n.value), **tag)
    b = bytes(n.bytes)
    if b != C.name_bytes(want):
        viol.add('name_bytes', 'Name(value=%016X).bytes == %s, reference %s' % (v, b.hex(), C.name_bytes(want).hex()), **tag)
    buf = list(C.name_bytes(v))
    n2 = j.Name(bytes=buf)
    if n2.value != want:
        viol.add('name_from_bytes', 'Name(bytes=%s).value == %016X, reference %016X' % (C.name_bytes(v).hex(), n2.value, want), **tag)
    # decoding must not touch the caller's buffer (the same received data is decoded again, e.g. by the next CA of the stack) ...
    if buf != list(C.name_bytes(v)):
        viol.add('name_from_bytes', 'Name(bytes=buf) changed the caller\'s buffer from %s to %s' % (C.name_bytes(v).hex(), bytes(buf).hex()), how='buffer_modified', **tag)
    elif j.Name(bytes=buf).value != want or j.Name(bytes=bytearray(C.name_bytes(v))).value != want:
        viol.add('name_from_bytes', 'decoding the same buffer %s a second time / as a bytearray gives another NAME' % C.name_bytes(v).hex(), how='second_decode', **tag)
    kw = {k: val for k, val in f.items() if k != 'reserved_bit'}
    n3 = j.Name(**kw)
    if n3.value != want:
        viol.add('name_from_fields', 'Name(**fields of %016X).value == %016X' % (want, n3.value), **tag)
    if bytes(n3.bytes) != C.name_bytes(want):
        viol.add('name_bytes', 'Name(**fields).bytes mismatch for %016X' % want, **tag)
    # history: a NAME that has been read (value and bytes) and is then changed through ONE field property must describe the new NAME
    # consistently in its fields, value and bytes
    k, sh, w = C.NAME_FIELDS[(v ^ (v >> 17)) % len(C.NAME_FIELDS)]
    if k != 'reserved_bit':
        newv = (f[k] + 1 + (v >> 7) % ((1 << w) - 1 or 1)) % (1 << w)
        setattr(n, k, newv)
        want2 = (want & ~(((1 << w) - 1) << sh)) | (newv << sh)
        got2 = {kk: getattr(n, kk) for kk, _, _ in C.NAME_FIELDS}
        if n.value != want2 or bytes(n.bytes) != C.name_bytes(want2) or got2 != C.name_fields(want2):
            viol.add('name_after_set', 'Name(value=%016X) after .%s = %d: value %016X bytes %s, expected %016X / %s'
                     % (v, k, newv, n.value, bytes(n.bytes).hex(), want2, C.name_bytes(want2).hex()), field=k, **tag)
        # and the other way round: assigning value / bytes to a NAME built from fields
        n3.value = want2
        if bytes(n3.bytes) != C.name_bytes(want2) or getattr(n3, k) != newv:
            viol.add('name_after_set', 'Name(**fields of %016X) after .value = %016X: bytes %s field %s = %r' % (want, want2, bytes(n3.bytes).hex(), k, getattr(n3, k)), field='value', **tag)
        n2.bytes = list(C.name_bytes(want2))
        if n2.value != want2 or getattr(n2, k) != newv:
            viol.add('name_after_set', 'Name(bytes=..) after .bytes = %s: value %016X field %s = %r' % (C.name_bytes(want2).hex(), n2.value, k, getattr(n2, k)), field='bytes', **tag)


def _guard(fn, what):
    """an exception out of a codec class for an in-range value is a violation of the property (not a harness problem)"""
    def g(j, x, viol, tag):
        try:
            return fn(j, x, viol, tag)
        except Exception as e:
            viol.add('codec_raised', '%s %X: %s' % (what, x, repr(e)[:160]), exc=type(e).__name__, what=what, **tag)
    return g


check_id = _guard(_check_id, 'identifier')
check_pgn = _guard(_check_pgn, 'identifier / PGN object')
check_name = _guard(_check_name, 'NAME')


def run_case(case):
    j = load_j1939()
    viol = M.Violations()
    tag = dict(layer='codec')
    obs = dict(identifiers_checked=0, names_checked=0, arbitration_contests=0, mixed_order_contests=0, pgn_objects_checked=0)
    kind = case['kind']
    rng = random.Random(case['seed'])
    sample = dict(case=case)
    if kind == 'pgn_sweep':
        for pgn in range(case['lo'], case['hi']):
            for prio, sa in ((0, 0), (7, 255), (3, 0x80), (5, 0x7F)):
                x = (prio << 26) | (pgn << 8) | sa
                check_id(j, x, viol, tag)
                obs['identifiers_checked'] += 1
            check_pgn(j, (6 << 26) | (pgn << 8) | 0x21, viol, tag)
            obs['pgn_objects_checked'] += 1
        sample['example'] = '%08X' % x
    elif kind == 'id_random':
        for _ in range(case['n']):
            x = rng.randrange(1 << 29)
            check_id(j, x, viol, tag)
            if _ % 8 == 0:
                check_pgn(j, x, viol, tag)
            obs['identifiers_checked'] += 1
        sample['example'] = '%08X' % x
    elif kind == 'id_range':
        MessageId = j.MessageId
        for x in range(case['lo'], case['hi']):
            mid = MessageId(can_id=x)
            if mid.priority != (x >> 26) & 7 or mid.parameter_group_number != (x >> 8) & 0x3FFFF or mid.source_address != x & 0xFF or mid.can_id != x:
                check_id(j, x, viol, tag)
            elif (x & 0xFFF) == 0:
                check_id(j, x, viol, tag)
        obs['identifiers_checked'] += case['hi'] - case['lo']
        sample['example'] = '%08X..%08X' % (case['lo'], case['hi'] - 1)
    elif kind == 'name_field':
        fld = [f for f in C.NAME_FIELDS if f[0] == case['field']][0]
        nm, sh, w = fld
        total = 1 << w
        lo = total * case['shard'] // case['nshards']
        hi = total * (case['shard'] + 1) // case['nshards']
        mask = ((1 << w) - 1) << sh
        allones = (1 << 64) - 1
        bgs = [0, allones & ~mask, rng.getrandbits(64) & ~mask]
        vals = list(range(lo, hi, case['stride']))
        if hi - 1 not in vals:
            vals.append(hi - 1)
        for val in vals:
            for bg in bgs:
                check_name(j, bg | (val << sh), viol, tag)
                obs['names_checked'] += 1
        sample['example'] = '%s=%d' % (nm, vals[-1])
    elif kind == 'name_random':
        for _ in range(case['n']):
            check_name(j, rng.getrandbits(64), viol, tag)
            obs['names_checked'] += 1
    elif kind == 'name_walk':
        allones = (1 << 64) - 1
        for b in range(64):
            for v in (1 << b, allones ^ (1 << b), (1 << b) | 1, (1 << b) - 1):
                check_name(j, v & allones, viol, tag)
                obs['names_checked'] += 1
        # out-of-range field values must be rejected by the field constructor
        for (nm, sh, w) in C.NAME_FIELDS:
            if nm == 'reserved_bit':
                continue
            try:
                j.Name(**{nm: 1 << w})
                viol.add('name_range', 'Name(%s=%d) accepted a value that does not fit %d bits' % (nm, 1 << w, w), **tag)
            except ValueError:
                pass
    elif kind == 'ecu_rx':
        W = World(case['seed'], 'j1939-21')
        node = W.stack('A')
        seen = []
        node.ecu.subscribe(lambda priority, pgn, sa, timestamp, data: seen.append((priority, pgn, sa, bytes(data))))
        for dp in (0, 1):
            for pf in range(256):
                if pf in (0xEA, 0xEB, 0xEC, 0xEE):
                    continue          # request / transport / address claim are consumed by the stack itself
                for rep in range(2):
                    ps = 255 if pf < 240 else rng.randrange(256)          # PDU1: to the global address, so that an unfiltered listener gets it
                    prio, sa = rng.randrange(8), rng.choice([0, 0x21, 0x80, 253, rng.randrange(254)])
                    x = C.make_id(prio, dp, pf, ps, sa)
                    seen.clear()
                    node.on_frame(Frame(-1, W.sim.now, 'X', x, bytes([pf, dp, 1, 2])))
                    obs['identifiers_checked'] += 1
                    want = (prio, (dp << 16) | (pf << 8) | (ps if pf >= 240 else 0), sa, bytes([pf, dp, 1, 2]))
                    got = [(g[0], g[1], g[2], g[3]) for g in seen]
                    if got != [want]:
                        viol.add('id_parse', 'identifier %08X received by an ECU: the listener was told %s, the identifier says priority %d PGN %05X SA %02X'
                                 % (x, [(g[0], '%05X' % g[1], '%02X' % g[2]) for g in seen], want[0], want[1], want[2]), how='ecu_level', **tag)
        W.close()
    elif kind == 'arbitration':
        W = World(case['seed'], 'j1939-21')
        node = W.stack('A')
        ST = j.ControllerApplication.State
        allones = (1 << 64) - 1
        addr = 0x80
        for bgi in range(case['backgrounds']):
            bg = [0, allones & ~RES, None][bgi] if bgi < 2 else None
            if bg is None:
                bg = rng.getrandbits(64) & ~RES
            for bit in range(64):
                if bit == 48:
                    continue
                for direction in (0, 1):
                    mine = (bg & ~(1 << bit)) | (direction << bit)     # own NAME has the bit clear (must win) or set (must lose)
                    other = mine ^ (1 << bit)
                    aac = mine >> 63
                    ca = W.ca(node, addr, name_value=mine, bypass=True)
                    n0 = len(W.bus.frames)
                    node.on_frame(Frame(-1, W.sim.now, 'X', C.make_id(6, 0, C.PF_ADDRESS_CLAIM, 255, addr), C.name_bytes(other)))
                    sent = W.bus.frames[n0:]
                    obs['arbitration_contests'] += 1
                    one = len(sent) == 1 and sent[0].data == C.name_bytes(mine)
                    if mine < other:
                        ok = ca.state == ST.NORMAL and ca.device_address == addr and one and (sent[0].can_id & 0xFF) == addr
                        how = 'lower_lost'
                    elif aac:
                        ok = ca.state == ST.WAIT_VETO and one and (sent[0].can_id & 0xFF) == addr + 1
                        how = 'higher_kept'
                    else:
                        ok = ca.state == ST.CANNOT_CLAIM and one and (sent[0].can_id & 0xFF) == 254
                        how = 'higher_kept'
                    if not ok:
                        viol.add('arbitration_order', 'CA with NAME %016X against contender %016X (differ in bit %d, own is %s): state %r, frames %s'
                                 % (mine, other, bit, 'lower' if mine < other else 'higher', ca.state, [f.brief() for f in sent]), how=how, **tag)
                    elif mine < other and (mine & ~RES) > 0:
                        # history: the same CA, having just defended its address against a higher NAME, is now challenged (from the same source
                        # address) by a NAME one below its own: every contest is decided by the NAME in the claim at hand
                        third = mine - 1 if ((mine - 1) & RES) == 0 else mine - 1 - RES
                        n1 = len(W.bus.frames)
                        node.on_frame(Frame(-1, W.sim.now, 'X', C.make_id(6, 0, C.PF_ADDRESS_CLAIM, 255, addr), C.name_bytes(third)))
                        obs['arbitration_contests'] += 1
                        lost = (ca.state == ST.WAIT_VETO) if aac else (ca.state == ST.CANNOT_CLAIM)
                        if not lost:
                            viol.add('arbitration_order', 'CA with NAME %016X defended against %016X and then kept its address against the lower NAME %016X: state %r, frames %s'
                                     % (mine, other, third, ca.state, [f.brief() for f in W.bus.frames[n1:]]), how='history', **tag)
                    node.ecu.remove_ca(addr)
        # NAME pairs that differ in SEVERAL bytes, in particular with the order of their low (first transmitted) bytes opposite to the numeric
        # order of the 64-bit values: arbitration is the comparison of the values, nothing else
        for t in range(60 * case['backgrounds']):
            mine = rng.getrandbits(64) & ~RES
            if t % 3 == 0:
                other = rng.getrandbits(64) & ~RES
            else:
                # flip the comparison of one high byte against that of one low byte
                hb, lb = rng.randrange(4, 8), rng.randrange(0, 4)
                other = mine
                d_hi = rng.choice([1, -1])
                hv = ((mine >> (8 * hb)) & 0xFF) + d_hi
                lv = ((mine >> (8 * lb)) & 0xFF) - d_hi * rng.randint(1, 100)
                if not (0 <= hv <= 255 and 0 <= lv <= 255):
                    continue
                other = (mine & ~(0xFF << (8 * hb)) & ~(0xFF << (8 * lb))) | (hv << (8 * hb)) | (lv << (8 * lb))
                other &= ~RES
            if other == mine:
                continue
            aac = mine >> 63
            ca = W.ca(node, addr, name_value=mine, bypass=True)
            n0 = len(W.bus.frames)
            node.on_frame(Frame(-1, W.sim.now, 'X', C.make_id(6, 0, C.PF_ADDRESS_CLAIM, 255, addr), C.name_bytes(other)))
            sent = W.bus.frames[n0:]
            obs['arbitration_contests'] += 1
            obs['mixed_order_contests'] = obs.get('mixed_order_contests', 0) + 1
            if mine < other:
                ok = ca.state == ST.NORMAL and ca.device_address == addr and len(sent) == 1 and sent[0].data == C.name_bytes(mine)
            elif aac:
                ok = ca.state == ST.WAIT_VETO
            else:
                ok = ca.state == ST.CANNOT_CLAIM
            if not ok:
                viol.add('arbitration_order', 'CA with NAME %016X against contender %016X (several bytes differ, own is %s): state %r, frames %s'
                         % (mine, other, 'lower' if mine < other else 'higher', ca.state, [f.brief() for f in sent]), how='mixed_order', **tag)
            node.ecu.remove_ca(addr)
        W.close()
    sig = repr(sorted((k, v) for k, v in case.items() if k not in ('id',)))
    return dict(violations=list(viol), inconclusive=None, sig=sig, nontrivial=True, obs=obs, sample=sample)


def coverage(results, tier):
    if tier == 'thorough':
        return dict(exhaustive=True, explanation='all 2^29 identifiers and every NAME field over its whole range; NAME 64-bit space sampled')
    return dict(exhaustive=False, explanation='all 2^18 PGN values with corner priorities/SAs; NAME fields swept (identity number strided); rest sampled')
