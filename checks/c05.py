"""C05 -- messages reach only the addressed applications; foreign traffic is ignored."""
import random
import collections

from vt.world import World
from vt import monitors as M
from vt.bus import ScriptNode, Frame
from ref import codec as C

PROPERTY = 'C05'
LEVEL = 'exploration'
RULE = ('a case = one stack configuration (data link layer; 0-3 CAs, each not started / waiting for veto / operational by claim / operational by '
        'bypass / cannot-claim / moved to another address after a loss; ECU-level listeners: unfiltered, integer address, predicate; CA listeners subscribed before start() or only once the CA is operational (just before it loses the address again); listeners that were subscribed - also back to back for two addresses - and removed again) into which a '
        'scripted node injects, for ALL 256 destination addresses: PDU1 single frames (data page 0 and 1), and for unowned destinations TP.CM RTS / '
        'CTS / EndOfMsgACK / abort, TP.DT, requests and destination-specific address-claimed frames naming a local CA\'s address (FD: Multi-PG, FD.TP.CM RTS/CTS/EOMS/EOMA/abort, FD.TP.DT); PDU2 frames for 3 PF x all 256 PS; complete '
        'and partial foreign RTS/CTS and BAM sessions between two other nodes; all 8 (extended, remote, error) flag combinations; oracle = the set '
        'of callbacks that fired equals the set computed by the harness from its own record of registrations and CA states; for unowned '
        'destinations: no callback, no frame sent by the stack, session tables unchanged; non-trivial = always (every case sweeps all 256 DAs); '
        'distinct = the configuration')
ASSUMPTIONS = ['the expected set is computed from the harness\'s own bookkeeping, never by calling the stack\'s predicates',
               'for owned destinations only single-frame messages are judged here (transport to owned addresses is C01/C02/C03)']
MIN_OBS = {'frames_injected': {'quick': 250000, 'thorough': 3000000}, 'unowned_protocol_frames': {'quick': 100000, 'thorough': 1000000},
           'callbacks_expected': {'quick': 100000, 'thorough': 1000000}, 'flag_combinations': {'quick': 1000, 'thorough': 10000},
           'foreign_sessions': {'quick': 300, 'thorough': 3000}, 'listener_at_address_0': {'quick': 5, 'thorough': 50},
           'late_subscriptions': {'quick': 30, 'thorough': 300}, 'removed_listeners': {'quick': 60, 'thorough': 600}}

CA_STATES = ['none', 'wait_veto', 'normal', 'bypass', 'cannot', 'moved']


def cases(tier, seed):
    rng = random.Random(5000 + seed)
    out = []
    n = 150 if tier == 'quick' else 1500
    for layer in ('j1939-21', 'j1939-22'):
        # every single-CA state once, then random combinations
        for st in CA_STATES:
            out.append(dict(layer=layer, cas=[st], listeners=['none', 'int', 'pred'], seed=rng.randrange(1 << 30)))
        out.append(dict(layer=layer, cas=[], listeners=['none', 'int', 'pred'], seed=rng.randrange(1 << 30)))
        for i in range(n):
            k = rng.randint(0, 3)
            out.append(dict(layer=layer, cas=[rng.choice(CA_STATES) for _ in range(k)],
                            listeners=rng.sample(['none', 'int', 'pred', 'int2'], rng.randint(1, 4)), seed=rng.randrange(1 << 30)))
    return out


def run_case(case):
    rng = random.Random(case['seed'])
    layer = case['layer']
    fd = layer == 'j1939-22'
    W = World(case['seed'], layer, (0.0001, 0.001))
    sim = W.sim
    viol = M.Violations()
    A = W.stack('A')
    X = ScriptNode(W.bus, 'X')
    tag = dict(layer=layer)
    # ---- configuration, with the harness's own record of who owns what -----------------------
    fired = collections.defaultdict(list)        # listener name -> [(pgn, sa, data)]
    listeners = {}                               # name -> dict(kind, addr / pred / ca index)
    cas = []
    used = set()

    def mkcb(name):
        def cb(priority, pgn, sa, timestamp, data):
            fired[name].append((pgn, sa, bytes(data)))
        return cb

    def fresh(lo, hi):
        while True:
            a = rng.randrange(lo, hi)
            if a not in used and a + 1 not in used and a - 1 not in used:
                used.add(a)
                return a
    lrng = random.Random(case['seed'] ^ 0x1A7E)
    ghost_addrs = []
    late_subs = [0]
    ghosts = [0]
    LOW = C.name_value(identity_number=1)            # contender NAME lower than every CA's
    for i, st in enumerate(case['cas']):
        aac = 1 if st == 'moved' else rng.randrange(2) if st != 'cannot' else 0
        nv = C.name_value(identity_number=100 + i, function=20, arbitrary_address_capable=aac)
        if st == 'wait_veto':
            pref = fresh(130, 240)
        elif st in ('bypass', 'normal') and 0 not in used and rng.random() < 0.3:
            pref = 0
            used.update((0, 1))
        else:
            pref = fresh(2, 120)
        ca = W.ca(A, pref, name_value=nv, bypass=(st == 'bypass'))
        rec = dict(ca=ca, want=st, pref=pref, name=nv, held=None)
        cas.append(rec)
        nm = 'ca%d' % i
        # the application subscribes before start() -- or only once the CA is operational (and, for 'cannot' / 'moved', just before it loses
        # the address again): what the listener is bound to must follow the CA, not the instant of the subscription
        late = st in ('normal', 'cannot', 'moved') and lrng.random() < 0.35
        if late:
            sim.at(0.38, ca.subscribe, mkcb(nm))
            late_subs[0] += 1
        else:
            ca.subscribe(mkcb(nm))
        if lrng.random() < 0.25:
            g = mkcb('removed_ca%d' % i)          # a listener that is removed again must stay silent
            ca.subscribe(g)
            ca.unsubscribe(g)
            ghosts[0] += 1
        listeners[nm] = dict(kind='ca', idx=i)
        if st == 'wait_veto':
            sim.at(0.9, ca.start, 0.001)
        elif st in ('normal', 'cannot', 'moved'):
            sim.at(0.1, ca.start, 0.001)
            if st in ('cannot', 'moved'):
                sim.at(0.4, X.send, C.make_id(6, 0, C.PF_ADDRESS_CLAIM, 255, pref), C.name_bytes(LOW), fd)
    for ln in case['listeners']:
        if ln == 'none':
            A.ecu.subscribe(mkcb('ecu_all'))
            listeners['ecu_all'] = dict(kind='all')
        elif ln in ('int', 'int2'):
            # sometimes an address a CA holds, mostly its own
            if cas and rng.random() < 0.25:
                a = rng.choice([c['pref'] for c in cas])
            elif rng.random() < 0.4 and [b for b in (0, 1, 253) if b not in used]:
                a = rng.choice([b for b in (0, 1, 253) if b not in used])       # boundary addresses (0 is falsy!)
                used.add(a)
            else:
                a = fresh(2, 250)
            A.ecu.subscribe(mkcb('ecu_' + ln), a)
            listeners['ecu_' + ln] = dict(kind='int', addr=a)
        else:
            accept = frozenset(rng.sample(range(0, 254), 6) + ([cas[0]['pref']] if cas else []) + [listeners[k]['addr'] for k in listeners if listeners[k]['kind'] == 'int'][:1])
            A.ecu.subscribe(mkcb('ecu_pred'), lambda d, _s=accept: d in _s)
            listeners['ecu_pred'] = dict(kind='pred', accept=accept)
    if lrng.random() < 0.35:
        # one callback registered back to back for two addresses nobody else owns, then removed: afterwards both addresses are foreign again
        g = mkcb('removed_ecu')
        ga = [fresh(2, 250), fresh(2, 250)]
        ghost_addrs.extend(ga)
        for a in ga:
            A.ecu.subscribe(g, a)
        if lrng.random() < 0.5:
            sim.at(0.5, A.ecu.unsubscribe, g)
        else:
            A.ecu.unsubscribe(g)
        ghosts[0] += 1
    # history: while the configuration is still being established (claims made at 0.1, losses at 0.4, removals at 0.5) every address that is
    # served at that moment receives one destination-specific frame -- what the stack remembers from then must not outlive the ownership
    def early_traffic():
        targets = [c['pref'] for c in cas] + [l['addr'] for l in listeners.values() if l['kind'] == 'int'] + list(ghost_addrs)
        for a in targets:
            A.on_frame(Frame(-1, sim.now, 'X', C.make_id(3, 0, 0xD0 if not fd else 0xD1, a, 0x8F), bytes([a, 0, 9, 9, 9]), fd))
            if fd:
                A.on_frame(Frame(-1, sim.now, 'X', C.make_id(6, 0, C.PF_MULTI_PG, a, 0x8F), C.mpg_frame([(0x0D200, bytes([a, 1, 1]))]), fd))
    sim.at(0.3, early_traffic)
    W.run(1.0)
    ST = W.j1939.ControllerApplication.State
    # the harness's own view of the CA states at the injection instant (cross-checked against the API, not derived from it)
    expect_state = {'none': ST.NONE, 'wait_veto': ST.WAIT_VETO, 'normal': ST.NORMAL, 'bypass': ST.NORMAL, 'cannot': ST.CANNOT_CLAIM, 'moved': None}
    for c in cas:
        st = c['want']
        if st in ('normal', 'bypass'):
            c['held'] = c['pref']
        elif st == 'moved':
            c['held'] = c['pref'] + 1        # lost pref to the lower NAME, re-claimed the next one (WAIT_VETO -> NORMAL at the next tick)
        es = expect_state[st]
        if st == 'moved':
            # (where the CA is is decided by the harness's own record: it claimed pref + 1 on the bus after the loss and nobody contested it)
            if c['ca'].state != ST.NORMAL or not any(f.src == 'A' and C.split_id(f.can_id)['pf'] == C.PF_ADDRESS_CLAIM and (f.can_id & 0xFF) == c['pref'] + 1 for f in W.bus.frames):
                W.close()
                return dict(violations=[], inconclusive='could not drive CA into state moved (%r, %r)' % (c['ca'].state, c['ca'].device_address),
                            sig='setup', nontrivial=False, obs={}, sample=None)
        elif c['ca'].state != es:
            W.close()
            return dict(violations=[], inconclusive='could not drive CA into state %s (is %r)' % (st, c['ca'].state), sig='setup', nontrivial=False, obs={}, sample=None)
    held = {c['held'] for c in cas if c['held'] is not None}
    int_addrs = {l['addr'] for l in listeners.values() if l['kind'] == 'int'}

    def owned(d):
        return d == 255 or d in held or d in int_addrs

    def expected_for(d):
        if not owned(d):
            return set()
        out = set()
        for nm, l in listeners.items():
            if l['kind'] == 'all' or d == 255:
                out.add(nm)
            elif l['kind'] == 'int' and l['addr'] == d:
                out.add(nm)
            elif l['kind'] == 'pred' and d in l['accept']:
                out.add(nm)
            elif l['kind'] == 'ca' and cas[l['idx']]['held'] == d:
                out.add(nm)
        return out

    obs = dict(listener_at_address_0=1 if 0 in int_addrs else 0, frames_injected=0, unowned_protocol_frames=0, callbacks_expected=0, flag_combinations=0, foreign_sessions=0, owned_addresses_max=len(held | int_addrs),
               late_subscriptions=late_subs[0], removed_listeners=ghosts[0])

    def snapshot():
        return ({k: len(v) for k, v in fired.items()}, len(W.bus.frames), (A.tables(), tuple((int(c['ca'].state), c['ca'].device_address) for c in cas)))

    def inject(can_id, data, what, d, expect, ext=True, remote=False, error=False, check_state=True):
        before = snapshot()
        A.on_frame(Frame(-1, sim.now, 'X', can_id, data, fd, ext, remote, error))
        after = snapshot()
        obs['frames_injected'] += 1
        got = {k for k in set(before[0]) | set(after[0]) if after[0].get(k, 0) != before[0].get(k, 0)}
        multi = {k for k in got if after[0].get(k, 0) - before[0].get(k, 0) > 1}
        if got != expect:
            extra, missing = sorted(got - expect), sorted(expect - got)
            viol.add('wrong_listeners', '%s to DA %d (%08X %s): fired %s, expected %s (held %s, int %s)'
                     % (what, d, can_id, data[:8].hex(), sorted(got), sorted(expect), sorted(held), sorted(int_addrs)),
                     how='extra' if extra and not missing else ('missing' if missing and not extra else 'both'), what=what,
                     who=(extra + missing)[0].split('_')[0].rstrip('0123456789'), **tag)
        if multi:
            viol.add('listener_called_twice', '%s to DA %d: %s called more than once' % (what, d, sorted(multi)), what=what, **tag)
        obs['callbacks_expected'] += len(expect)
        if check_state:
            if after[1] != before[1]:
                viol.add('foreign_frame_answered', '%s to unowned DA %d (%08X %s): the stack transmitted %s'
                         % (what, d, can_id, data[:8].hex(), W.bus.frames[before[1]].brief()), what=what, **tag)
            if after[2] != before[2]:
                viol.add('foreign_frame_left_state', '%s to unowned DA %d: session tables changed %s -> %s' % (what, d, before[2], after[2]), what=what, **tag)
        return got

    SA = 0x90
    while SA in held or SA in int_addrs:
        SA += 1
    # ---- sweep over all 256 destination addresses ------------------------------------------------
    for d in range(256):
        ex = expected_for(d)
        for dp in (0, 1):
            data = bytes([d, dp, 1, 2, 3])
            got = inject(C.make_id(3, dp, 0xD0 if not fd else 0xD1, d, SA), data, 'pdu1_single', d, ex, check_state=not owned(d))
        if fd:
            # Multi-PG with one C-PG
            payload = bytes([d, 7, 7])
            inject(C.make_id(6, 0, C.PF_MULTI_PG, d, SA), C.mpg_frame([(0x0D200, payload)]), 'multi_pg', d, ex, check_state=not owned(d))
            # a contained group in PDU2 format inside a frame addressed to d: the frame's destination decides who gets it
            inject(C.make_id(6, 0, C.PF_MULTI_PG, d, SA), C.mpg_frame([(0x0FE10, payload)]), 'multi_pg_pdu2', d, ex, check_state=not owned(d))
        if owned(d):
            continue
        protos = []
        if not fd:
            protos = [('tp_rts', C.PF_TP_CM, C.tpcm_rts(20, 255, 0xD000)), ('tp_cts', C.PF_TP_CM, C.tpcm_cts(2, 1, 0xD000)),
                      ('tp_eom', C.PF_TP_CM, C.tpcm_eom(20, 3, 0xD000)), ('tp_abort', C.PF_TP_CM, C.tpcm_abort(2, 0xD000)),
                      ('tp_dt', C.PF_TP_DT, C.tp_dt(1, b'abcdefg')), ('request', C.PF_REQUEST, C.request_payload(0xFECA)),
                      ('request_claim', C.PF_REQUEST, C.request_payload(0xEE00))]
        else:
            protos = [('fd_rts', C.PF_FD_TP_CM, C.fdcm_rts(1, 200, 255, 0xD000)), ('fd_cts', C.PF_FD_TP_CM, C.fdcm_cts(1, 1, 2, 0xD000)),
                      ('fd_eoms', C.PF_FD_TP_CM, C.fdcm_eoms(1, 200, 0xD000)), ('fd_eoma', C.PF_FD_TP_CM, C.fdcm_eoma(1, 200, 0xD000)),
                      ('fd_abort', C.PF_FD_TP_CM, C.fdcm_abort(1, 2, 0xD000)), ('fd_dt', C.PF_FD_TP_DT, C.fd_dt(1, 1, bytes(60))),
                      ('request', C.PF_REQUEST, C.request_payload(0xFECA)), ('request_claim', C.PF_REQUEST, C.request_payload(0xEE00))]
        for what, pf, data in protos:
            inject(C.make_id(7, 0, pf, d, SA), data, what, d, set())
            obs['unowned_protocol_frames'] += 1
        # destination-specific address-claimed frames to an unowned address, sent "from" an address a local CA holds (or wants): a contender
        # with a lower and with a higher NAME -- foreign traffic, must not touch the CA
        for c in cas[:2]:
            src_a = c['held'] if c['held'] is not None else c['pref']
            for what, nm in (('claim_lower_name', LOW), ('claim_higher_name', C.name_value(identity_number=0x1FFFFF, function=255, industry_group=7, arbitrary_address_capable=1))):
                inject(C.make_id(6, 0, C.PF_ADDRESS_CLAIM, d, src_a), C.name_bytes(nm), what, d, set())
                obs['unowned_protocol_frames'] += 1
    # ---- PDU2: always a broadcast ------------------------------------------------------------------
    everyone = set(listeners)
    for pf in (0xF0, 0xFE, 0xFF):
        for ps in range(256):
            inject(C.make_id(6, ps & 1, pf, ps, SA), bytes([pf, ps, 0, 0, 0, 0, 0, 0]), 'pdu2', ps, everyone, check_state=False)
    # ---- frame-type flags ---------------------------------------------------------------------------
    for d in ([255] + sorted(held | int_addrs)[:2]):
        for ext in (True, False):
            for remote in (False, True):
                for error in (False, True):
                    good = ext and not remote and not error
                    cid = C.make_id(3, 0, 0xD0 if not fd else 0xD1, d, SA)
                    if not ext:
                        cid &= 0x7FF
                    inject(cid, bytes([1, 2, 3]), 'flags(ext=%d,rtr=%d,err=%d)' % (ext, remote, error), d, expected_for(d) if good else set(),
                           ext=ext, remote=remote, error=error, check_state=not good)
                    obs['flag_combinations'] += 1
    # ---- foreign sessions between two other nodes (complete and partial) -----------------------------
    others = [a for a in range(0x60, 0x90) if not owned(a)][:2]
    if len(others) == 2:
        xa, ya = others
        seqs = []
        pay = bytes(range(30)) if not fd else bytes(range(150))
        if not fd:
            full = [(xa, ya, C.PF_TP_CM, C.tpcm_rts(len(pay), 2, 0xD000)), (ya, xa, C.PF_TP_CM, C.tpcm_cts(2, 1, 0xD000))]
            for k in range(5):
                full.append((xa, ya, C.PF_TP_DT, C.tp_dt(k + 1, pay[k * 7:k * 7 + 7])))
                if k in (1, 3):
                    full.append((ya, xa, C.PF_TP_CM, C.tpcm_cts(2, k + 2, 0xD000)))
            full.append((ya, xa, C.PF_TP_CM, C.tpcm_eom(len(pay), 5, 0xD000)))
        else:
            full = [(xa, ya, C.PF_FD_TP_CM, C.fdcm_rts(2, len(pay), 2, 0xD000)), (ya, xa, C.PF_FD_TP_CM, C.fdcm_cts(2, 1, 2, 0xD000))]
            for k in range(3):
                full.append((xa, ya, C.PF_FD_TP_DT, C.fd_dt(2, k + 1, pay[k * 60:k * 60 + 60])))
                if k == 1:
                    full.append((ya, xa, C.PF_FD_TP_CM, C.fdcm_cts(2, 3, 1, 0xD000)))
            full.append((xa, ya, C.PF_FD_TP_CM, C.fdcm_eoms(2, len(pay), 0xD000)))
            full.append((ya, xa, C.PF_FD_TP_CM, C.fdcm_eoma(2, len(pay), 0xD000)))
        seqs.append(full)
        seqs.append(full[:rng.randint(1, len(full) - 1)])        # partial: the peer vanishes
        seqs.append(full[:2] + [(ya, xa, full[0][2], C.tpcm_abort(1, 0xD000) if not fd else C.fdcm_abort(2, 1, 0xD000))])
        for sq in seqs:
            obs['foreign_sessions'] += 1
            for (s, d, pf, data) in sq:
                inject(C.make_id(7, 0, pf, d, s), data, 'foreign_session', d, set())
    W.run(sim.now + 2.0)
    M.m_live(viol, W, layer)
    if not A.tables_empty():
        viol.add('foreign_frame_left_state', 'session tables not empty 2 s after the sweep: %s' % A.tables(), what='end', **tag)
    sig = repr((layer, tuple(case['cas']), tuple(sorted(case['listeners']))))
    sample = dict(case=case, held=sorted(held), int_listener_addresses=sorted(int_addrs), listeners={k: v['kind'] for k, v in listeners.items()},
                  injected=obs['frames_injected'], fired={k: len(v) for k, v in fired.items()})
    res = dict(violations=list(viol), inconclusive=None, sig=sig, nontrivial=True, obs=obs, sample=sample)
    W.close()
    return res


def coverage(results, tier):
    return dict(exhaustive=True, explanation='exhaustive over the destination-address dimension (all 256 DAs per configuration and frame kind) and the 8 frame-flag combinations; configurations sampled')
