"""Shared DM14 (memory access) harness for C17, C18, C19: a client stack, a server stack with an application model,
optionally a scripted intruder / scripted server, operations run from a client application task."""
import random

from vt.world import World
from vt import engine
from vt.bus import ScriptNode
from ref import codec as C

CLI, SRV, INTR = 0xF9, 0xD4, 0xE5


def default_algo(seed):
    return (seed ^ 0xA5C3) & 0xFFFF


class Dm14World:
    def __init__(self, seed, seedkey=False, algo=None, srv_algo=None, seeds=None, windows=(255, 255), latency=(0.0001, 0.005), respond_delay=None,
                 with_server=True, cli_addr=CLI, srv_addr=SRV, second_client=None, app_preempt=0.0):
        self.W = W = World(seed, 'j1939-21', latency)
        self.sim = W.sim
        # app_preempt > 0: the application threads (the client task calling read/write, the serving task calling respond) are pre-empted at
        # random source lines inside the library for 0.2..3 ms while reception and the job threads go on
        self.app_holds = [0]
        self.app_trace = None
        if app_preempt:
            from vt import preempt as PRE
            self.app_trace = PRE.random_tracer(self.sim, seed ^ 0xA99, p=app_preempt, holds=(0.0002, 0.001, 0.003), counter=self.app_holds, max_holds=300)
        self.j = j = W.j1939
        self.rng = random.Random(seed ^ 0x1234)
        self.C = W.stack('C', max_cmdt_packets=windows[0])
        self.cli_addr, self.srv_addr = cli_addr, srv_addr
        self.ca_c = W.ca(self.C, cli_addr, identity_number=1)
        self.cli = j.MemoryAccess(self.ca_c)
        self.clients = [self.cli]
        self.client_addrs = [cli_addr]
        if second_client is not None:
            # another requester on its own stack, using the same server one transaction after the other
            self.C2 = W.stack('C2', max_cmdt_packets=windows[0])
            self.ca_c2 = W.ca(self.C2, second_client, identity_number=5)
            self.clients.append(j.MemoryAccess(self.ca_c2))
            self.client_addrs.append(second_client)
        self.log = []                 # application-level event log: (t, what, details)
        self.ctx = dict(nbytes=0, read_data=None, accept=True, respond=('ok',), respond_delay=respond_delay)
        self.proceed_calls = []
        self.inline_responds = 0
        self.notify_calls = []
        self.responds = []
        self.seeds_issued = []
        self.srv = None
        if with_server:
            self.S = W.stack('S', max_cmdt_packets=windows[1])
            self.ca_s = W.ca(self.S, srv_addr, identity_number=2)
            self.srv = j.MemoryAccess(self.ca_s)
            self.srv.set_proceed(self._proceed)
            self.srv.set_notify(self._notify)
            if seedkey:
                for c in self.clients:
                    c.set_seed_key_algorithm(algo or default_algo)
                self.srv.set_seed_key_algorithm(srv_algo or algo or default_algo)
                it = iter(seeds) if seeds else None

                def gen():
                    s = next(it) if it is not None else self.rng.randrange(1, 0xFFFF)
                    self.seeds_issued.append((self.sim.now, s))
                    return s
                self.srv.set_seed_generator(gen)
        elif seedkey:
            self.cli.set_seed_key_algorithm(algo or default_algo)
        W.run(0.01)

    # ---- server application model ------------------------------------------------------------------
    def _proceed(self, command, address, pointer_type, length, object_count, key, sa, access_level, seed):
        rec = dict(t=self.sim.now, command=command, address=address, pointer_type=pointer_type, length=length, object_count=object_count,
                   key=key, sa=sa, access_level=access_level, seed=seed, n_frames=len(self.W.bus.frames))
        self.proceed_calls.append(rec)
        return self.ctx['accept']

    def _notify(self):
        self.notify_calls.append(self.sim.now)
        d = self.ctx['respond_delay'] if self.ctx['respond_delay'] is not None else self.rng.uniform(0.001, 0.020)
        plan = self.ctx['respond']
        snapshot = dict(self.ctx)
        last = self.proceed_calls[-1] if self.proceed_calls else None
        if self.ctx.get('respond_inline') and last and last['command'] == C.DM14_READ and plan[0] in ('ok', 'refuse'):
            # the application answers a read from inside its notify callback (respond() does not block for a read)
            self.inline_responds += 1
            self._app_task(snapshot, last, plan)
            return
        self.sim.after(d, lambda: self.spawn_app(self._app_task, snapshot, last, plan, name='srvapp'))

    def spawn_app(self, fn, *a, name='app'):
        keep = self.sim.trace_hook
        self.sim.trace_hook = self.app_trace
        try:
            return self.sim.spawn(fn, *a, name=name)
        finally:
            self.sim.trace_hook = keep

    def _app_task(self, ctx, last, plan):
        srv = self.srv
        rec = dict(t0=self.sim.now, plan=plan, command=last['command'] if last else None, ret=None, exc=None, data=None)
        try:
            if plan[0] == 'ok':
                if last and last['command'] == C.DM14_READ:
                    data = [self.rng.randrange(256) for _ in range(ctx['nbytes'])]
                    rec['data'] = bytes(data)
                    rec['ret'] = srv.respond(True, list(data), 0xFFFF, 0xFF)
                else:
                    r = srv.respond(True, [], 0xFFFF, 0xFF, max_timeout=ctx.get('srv_timeout', 3))
                    rec['ret'] = None if r is None else bytes(r)
            elif plan[0] == 'refuse':
                # application refuses at respond(): error code + EDCP extension
                rec['ret'] = srv.respond(False, [], plan[1], plan[2])
            elif plan[0] == 'never':
                pass
        except engine.SimThreadKilled:
            raise
        except BaseException as e:
            rec['exc'] = repr(e)
        rec['t1'] = self.sim.now
        self.responds.append(rec)

    # ---- client operations ---------------------------------------------------------------------------
    def run_ops(self, ops, gap=0.05, via='facade', until_extra=1.0, timeout=1):
        """ops: list of dicts(kind='read'|'write', ...).  Runs them one after the other in a client application task."""
        results = []
        done = []

        def task():
            for op in ops:
                pre = op.get('pre')
                if pre:
                    pre(self)
                cl = self.clients[op.get('client', 0)]
                obj = cl if op.get('via', via) == 'facade' else cl.query
                r = dict(op=op, t0=self.sim.now, ret=None, exc=None, exc_type=None, n_proceed=len(self.proceed_calls), n_respond=len(self.responds),
                         n_notify=len(self.notify_calls),
                         f0=len(self.W.bus.frames))
                try:
                    if op['kind'] == 'read':
                        self.ctx['nbytes'] = op['count'] * op['size']
                        r['ret'] = obj.read(self.srv_addr if 'dest' not in op else op['dest'], op['direct'], op['pointer'], op['count'], op['size'], op['signed'], op['raw'],
                                            op.get('timeout', timeout))
                    else:
                        r['ret'] = obj.write(self.srv_addr if 'dest' not in op else op['dest'], op['direct'], op['pointer'], list(op['values']), op['size'],
                                             op.get('timeout', timeout))
                except engine.SimThreadKilled:
                    raise
                except BaseException as e:
                    r['exc'] = repr(e)
                    r['exc_type'] = type(e).__name__
                    r['exc_text'] = str(e)
                r['t1'] = self.sim.now
                r['f1'] = len(self.W.bus.frames)
                results.append(r)
                if op.get('gap', gap) > 0:
                    engine._vsleep(op.get('gap', gap))
            done.append(self.sim.now)
        self.spawn_app(task, name='cliapp')
        t_limit = self.sim.now + sum(op.get('timeout', timeout) + op.get('gap', gap) + 4.0 for op in ops) + until_extra
        while not done and self.sim.now < t_limit and not self.W.runaway:
            self.W.run(min(self.sim.now + 0.5, t_limit))
        self.W.run(self.sim.now + until_extra)
        self.finished = bool(done)
        return results

    def states(self):
        def nm(obj, *path):
            try:
                for a in path:
                    obj = getattr(obj, a)
                return getattr(obj, 'name', str(obj))
            except AttributeError:
                return 'IDLE?'          # not observable (renamed): reported, not judged

        def qs(obj, *path):
            try:
                for a in path:
                    obj = getattr(obj, a)
                return obj.qsize()
            except AttributeError:
                return 0
        out = dict(cli_facade=nm(self.cli, 'state'), cli_query=nm(self.cli, 'query', 'state'),
                   cli_data_q=qs(self.cli, 'query', 'data_queue'), cli_exc_q=qs(self.cli, 'query', 'exception_queue'))
        if self.srv is not None:
            out.update(srv_facade=nm(self.srv, 'state'), srv_server=nm(self.srv, 'server', 'state'), srv_data_q=qs(self.srv, 'server', 'data_queue'))
        return out

    def idle_problems(self):
        st = self.states()
        bad = []
        for k in ('cli_facade', 'cli_query', 'srv_facade', 'srv_server'):
            if k in st and st[k] not in ('IDLE', 'IDLE?'):
                bad.append('%s=%s' % (k, st[k]))
        return bad

    def close(self):
        self.W.close()


def decode_values(data, size, signed):
    return [int.from_bytes(data[i * size:(i + 1) * size], 'little', signed=signed) for i in range(len(data) // size)]


def encode_values(values, size):
    out = b''
    for v in values:
        out += int(v).to_bytes(size, 'little', signed=False)
    return out
