"""C03 -- wire format interoperates with an independent SAE J1939-21/-22 implementation (M-WIRE + M-FLOW + M-DELIV)."""
import random

from vt import monitors as M
from . import xchg

PROPERTY = 'C03'
LEVEL = 'exploration'
RULE = ('cases = one real stack against a scripted conforming peer written from the SAE layouts (ref.peers; imports nothing from the repository), on both '
        'data link layers, in four roles: stack originator vs reference responder (grant policy random / maximum / one packet / enumerated lists of grant '
        'sizes, 0-3 hold CTS <0.5 s apart before the first grant and between windows, reply latency 0..150 ms, zero = answered inside the stack\'s send '
        'call on J1939-21), reference originator (RTS limit 1..255, packet pacing 0..190 ms) vs stack responder, stack BAM sender, reference BAM sender '
        '(spacing 50..200 ms / 10..200 ms FD) vs stack receiver; plus stack-to-stack runs re-decoded by the sniffer; plus series of 5-9 messages in a row (broadcasts and destination-specific ones, some overlapping) from one stack object, each accepted and decoded independently, and series of 4-7 messages from the reference originator to one stack object (broadcasts re-using one session number back to back), each delivered exactly once; sizes over the whole range incl. '
        'boundaries, windows 1..255, PGNs with data page 0/1; oracle = the independent sniffer decodes every frame of the stack (identifier fields, '
        'control bytes, sizes, packet counts, LE PGN, 1-based in-order sequence numbers, FF padding and reserved bytes, legal FD lengths) to exactly the '
        'submitted message, the conforming peer reassembles it, conforming input is delivered exactly once with PGN/SA/payload and acknowledged '
        '(EndOfMsgACK / EOM ack fields), flow control is obeyed; thorough adds every grant size 1..min(limit, remaining) for 2..12-packet messages; '
        'non-trivial = every exchange; distinct = (layer, role, size class, window class, peer policy)')
ASSUMPTIONS = ['reference leniencies: FD abort bytes, Multi-PG padding bytes and priorities are not judged; PS of a PDU1 PGN in a BAM announcement is normalised',
               'the reference was validated against the literal frame vectors of the pinned suite (tools/selftest.py)']
MIN_OBS = {'exchanges': {'quick': 2800, 'thorough': 28000}, 'stack_originator': {'quick': 1000, 'thorough': 10000}, 'stack_responder': {'quick': 800, 'thorough': 8000},
           'cts_checked': {'quick': 30000, 'thorough': 300000}, 'dt_checked': {'quick': 60000, 'thorough': 600000}, 'holds_exercised': {'quick': 2000, 'thorough': 20000},
           'zero_latency': {'quick': 800, 'thorough': 8000}, 'series_messages': {'quick': 600, 'thorough': 7000}}


def cases(tier, seed):
    rng = random.Random(3000 + seed)
    out = []
    n = 3000 if tier == 'quick' else 30000
    for i in range(n):
        out.append(xchg.gen_case(rng))
    for i in range(60 if tier == 'quick' else 600):
        c = xchg.gen_case(rng, role='stack_stack')
        c['w2'] = rng.choice([1, 2, 255])
        out.append(c)
    # enumerated grant sizes: for P packets every first grant 1..P, rest maximal
    packs = [2, 3, 5] if tier == 'quick' else list(range(2, 13))
    for layer in ('j1939-21', 'j1939-22'):
        unit = 60 if layer == 'j1939-22' else 7
        for P in packs:
            for g1 in range(1, P + 1):
                for g2 in ([P] if tier == 'quick' else sorted(set([1, 2, P]))):
                    c = xchg.gen_case(rng, layer=layer, role='stack_orig')
                    c.update(size=unit * P - 3, w=255, grant='list', grants=[g1, g2] + [P] * P, holds=(0, 0), reply=(0.0, 0.001), zero=0.0, dt_interval=None)
                    out.append(c)
    # series of messages from one stack object
    for i in range(120 if tier == 'quick' else 1500):
        out.append(dict(kind='series', layer='j1939-22' if i % 2 else 'j1939-21', seed=rng.randrange(1 << 30)))
    for i in range(120 if tier == 'quick' else 1500):
        out.append(dict(kind='series_rx', layer='j1939-22' if i % 2 else 'j1939-21', seed=rng.randrange(1 << 30)))
    return out


def run_series(case, pacing=False):
    """5-9 messages in a row (broadcasts and destination-specific ones mixed, some overlapping in time) from ONE stack object to the reference
    responder: every one is accepted, and the independent sniffer decodes each to exactly what was submitted (state left behind by an
    earlier transfer -- session numbers, buffers -- must not show on the wire of a later one)"""
    from vt.world import World
    from ref import sniffer as SN
    from ref.peers import Responder
    layer = case['layer']
    fd = layer == 'j1939-22'
    rng = random.Random(case['seed'])
    W = World(case['seed'], layer, (0.0001, 0.002))
    sim = W.sim
    viol = M.Violations()
    tag = dict(layer=layer, role='series')
    A = W.stack('A', max_cmdt_packets=rng.choice([1, 3, 255]))
    ca = W.ca(A, 0x10, identity_number=1)
    R = Responder(W.bus, sim, rng, 0x20, fd, grant='max', holds=(0, 0), reply=(0.0, 0.002), hold_between=0.0)
    W.run(0.01)
    unit = 60 if fd else 7
    msgs = []
    t = 0.02
    kinds = [rng.random() < 0.6 for _ in range(rng.randint(5, 9))]
    bam_busy_until = 0.0
    for i, bam in enumerate(kinds):
        n = rng.randint(2, 4)
        size = unit * n - rng.randrange(unit)
        size = max(size, 61 if fd else 9)
        pay = [i] + [rng.randrange(256) for _ in range(size - 1)]
        pf = rng.choice([0xFE, 0xFF, 0xF1]) if bam else 0xD0 + i
        ps = rng.randrange(256) if bam else 0x20
        dur = (n + 2) * ((0.011 if fd else 0.051) if bam else 0.004) + 0.01
        if bam:
            t = max(t, bam_busy_until)          # one broadcast at a time (J1939-21 allows no more)
            bam_busy_until = t + dur
        m = dict(i=i, bam=bam, pay=bytes(pay), pf=pf, ps=ps, t=t, ret=None)
        msgs.append(m)
        sim.at(t, lambda m=m, pay=pay: m.update(ret=W.call('send', ca.send_pgn, 0, m['pf'], m['ps'], 6, list(pay))))
        # the next one after this one is through -- or, for a destination-specific message following a broadcast, while it is still running
        nxt_bam = kinds[i + 1] if i + 1 < len(kinds) else True
        if bam and not nxt_bam and rng.random() < 0.5:
            t += dur / 2            # a destination-specific transfer starts while this broadcast is running
        elif (not bam) and nxt_bam and rng.random() < 0.5:
            t += 0.002              # a broadcast starts while this destination-specific transfer is running (and outlives it)
        else:
            t += dur
    W.run(t + 3.0)
    obs = dict(exchanges=1, series_messages=len(msgs), frames=len(W.bus.frames), cts_checked=0, dt_checked=0, holds_exercised=0, bam_gaps_measured=0, cmdt_gaps_measured=0,
               stack_originator=1, stack_responder=0, zero_latency=0, background_timer=0)
    sn = SN.sniff(layer, W.bus.frames)
    for p in sn.problems:
        if p[0] == 'A':
            viol.add('wire_' + p[1] if len(p) > 2 else 'wire_problem', 'series: %s' % (p[2] if len(p) > 2 else p,), **tag)
    decoded = [s.payload() for s in sn.sessions if s.src == 'A']
    if pacing:
        # C09: broadcast packets of one session no closer than the default interval and no further apart than 200 ms (+ 2 ms)
        iv = 0.010 if fd else 0.050
        for s in sn.sessions:
            if s.src != 'A' or s.mode != 'bam':
                continue
            ts = [s.t_open] + [x[0] for x in s.dts]
            for a, b in zip(ts, ts[1:]):
                obs['bam_gaps_measured'] += 1
                if b - a < iv - 2e-6:
                    viol.add('bam_too_fast', 'series: broadcast packets %.1f ms apart (interval %.0f ms)' % ((b - a) * 1000, iv * 1000), **tag)
                elif b - a > 0.2 + 0.002:
                    viol.add('bam_too_slow', 'series: %.3f s between two packets of one broadcast while another transfer of the same stack ran / ended (limit 0.200 s)' % (b - a), **tag)
    for m in msgs:
        rec = m['ret']
        # a destination-specific message submitted while a broadcast is running is on another pair / in another pool: it must be accepted;
        # two broadcasts never overlap here
        if rec is None or rec.get('ret') is not True:
            viol.add('send_refused', 'series message #%d (%s, %d bytes) at %.3f: send_pgn returned %r / raised %s'
                     % (m['i'], 'BAM' if m['bam'] else 'RTS/CTS', len(m['pay']), m['t'], rec and rec.get('ret'), rec and rec.get('exc')), **tag)
        elif decoded.count(m['pay']) != 1:
            viol.add('wire_payload', 'series message #%d (%s, %d bytes): the independent decoder reassembles it %d times from the stack\'s frames'
                     % (m['i'], 'BAM' if m['bam'] else 'RTS/CTS', len(m['pay']), decoded.count(m['pay'])), **tag)
    M.m_live(viol, W, layer)
    M.m_quiet(viol, W, layer, what='3 s after the series')
    sample = dict(case=case, messages=[(m['i'], 'bam' if m['bam'] else 'p2p', len(m['pay']), round(m['t'], 3), m['ret'] and m['ret'].get('ret')) for m in msgs])
    res = dict(violations=list(viol), inconclusive=None, sig=repr(('series', layer, len(msgs))), nontrivial=True, obs=obs, sample=sample)
    W.close()
    return res


def run_series_rx(case):
    """4-7 messages in a row from the REFERENCE originator to one stack object, broadcasts re-using the same session number as soon as the
    previous one is finished (a conforming originator may), destination-specific ones in between: each is delivered exactly once"""
    from vt.world import World
    from ref.peers import Originator
    layer = case['layer']
    fd = layer == 'j1939-22'
    rng = random.Random(case['seed'])
    W = World(case['seed'], layer, (0.0001, 0.002))
    sim = W.sim
    viol = M.Violations()
    tag = dict(layer=layer, role='series_rx')
    A = W.stack('A', max_cmdt_packets=rng.choice([1, 3, 255]))
    ca = W.ca(A, 0x10, identity_number=1)
    W.listen_ca(ca, 'A')
    O = Originator(W.bus, sim, rng, 0x20, fd, pacing=(0.0005, 0.003), prio=6)
    W.run(0.01)
    unit = 60 if fd else 7
    msgs = []
    ses = rng.randrange(16) if fd else 0
    for i in range(rng.randint(4, 7)):
        bam = rng.random() < 0.65
        n = rng.randint(2, 4)
        size = max(unit * n - rng.randrange(unit), 61 if fd else 9)
        pay = bytes([i] + [rng.randrange(256) for _ in range(size - 1)])
        msgs.append(dict(i=i, bam=bam, pay=pay, pgn=(0xFE00 | rng.randrange(256)) if bam else (0xD0 + i) << 8, t=None, gap=rng.choice([0.002, 0.02, 0.3])))
    finished = []

    def start(k):
        if k >= len(msgs):
            finished.append(sim.now)
            return
        m = msgs[k]
        m['t'] = sim.now
        if m['bam']:
            spacing = (0.0105, 0.013) if fd else (0.051, 0.06)
            d = O.bam(m['pgn'], m['pay'], spacing, session=ses)            # returns the time until its last frame
            sim.after(d + 0.0005 + m['gap'], start, k + 1)                    # the next one right after this one is through
        else:
            st = O.start(0x10, m['pgn'], m['pay'], 255, session=(ses + 1) % 16 if fd else 0)
            t_lim = sim.now + 3.0

            def poll():
                if st.get('done') or st.get('aborted') or sim.now > t_lim:
                    sim.after(m['gap'], start, k + 1)
                else:
                    sim.after(0.002, poll)
            sim.after(0.002, poll)
    sim.at(0.02, start, 0)
    t_end = 0.02 + 12.0
    while not finished and sim.now < t_end and not W.runaway:
        W.run(sim.now + 0.5)
    W.run(sim.now + 3.0)
    obs = dict(exchanges=1, series_rx_messages=len(msgs), frames=len(W.bus.frames), cts_checked=0, dt_checked=0, holds_exercised=0, bam_gaps_measured=0,
               cmdt_gaps_measured=0, stack_originator=0, stack_responder=1, zero_latency=0, background_timer=0)
    got = [d[4] for d in W.deliv['A'] if d[3] == 0x20]
    for m in msgs:
        if got.count(m['pay']) != 1:
            viol.add('stack_delivery', 'series from the reference originator: message #%d (%s, %d bytes, started %.3f) was delivered %d times'
                     % (m['i'], 'BAM session %d' % ses if m['bam'] else 'RTS/CTS', len(m['pay']), m['t'], got.count(m['pay'])), **tag)
    extra = [g for g in got if g not in [m['pay'] for m in msgs]]
    for g in extra[:2]:
        viol.add('stack_delivery', 'series from the reference originator: the stack delivered %d bytes that nobody sent' % len(g), how='extra', **tag)
    M.m_live(viol, W, layer)
    M.m_quiet(viol, W, layer, what='3 s after the series')
    res = dict(violations=list(viol), inconclusive=None, sig=repr(('series_rx', layer, len(msgs))), nontrivial=True, obs=obs,
               sample=dict(case=case, messages=[(m['i'], 'bam' if m['bam'] else 'p2p', len(m['pay']), round(m['t'], 3)) for m in msgs]))
    W.close()
    return res


def run_case(case):
    if case.get('kind') == 'series':
        return run_series(case)
    if case.get('kind') == 'series_rx':
        return run_series_rx(case)
    r = xchg.run_exchange(case)
    viol = M.Violations()
    for (kind, msg) in r['findings']:
        if kind in ('bam_too_fast', 'bam_too_slow', 'cmdt_too_fast'):
            continue            # pacing is C09's verdict
        viol.add(kind, '%s %s size=%d w=%d: %s' % (case['layer'], case['role'], case['size'], case['w'], msg), layer=case['layer'], role=case['role'])
    fd = case['layer'] == 'j1939-22'
    unit = 60 if fd else 7
    sig = repr((case['layer'], case['role'], case['size'] % unit == 0, min(case['w'], 4), case['grant'], case['holds'][1] > 0, case['zero'] > 0,
                (case['size'] + unit - 1) // unit > case['w']))
    res = dict(violations=list(viol), inconclusive=None, sig=sig, nontrivial=True, obs=r['obs'], sample=r['sample'])
    if r['trace']:
        res['trace'] = r['trace']
    return res
