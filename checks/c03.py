"""C03 -- wire format interoperates with an independent SAE J1939-21/-22 implementation (M-WIRE + M-FLOW + M-DELIV)."""
import random

from vt import monitors as M
from . import xchg

PROPERTY = 'C03'
LEVEL = 'exploration'
RULE = ('cases = one real stack against a scripted conforming peer written from the SAE layouts (ref.peers; imports nothing from the repository), on both '
        'data link layers, in four roles: stack originator vs reference responder (grant policy random / maximum / one packet / enumerated lists of grant '
        'sizes, 0-3 hold CTS <0.5 s apart before the first grant and between windows, reply latency 0..150 ms, zero = answered inside the stack\'s send '
        'call on J1939-21), reference originator (RTS limit 1..255, packet pacing 0..190 ms) vs stack responder, stack BAM sender, reference BAM sender '
        '(spacing 50..200 ms / 10..200 ms FD) vs stack receiver; plus stack-to-stack runs re-decoded by the sniffer; sizes over the whole range incl. '
        'boundaries, windows 1..255, PGNs with data page 0/1; oracle = the independent sniffer decodes every frame of the stack (identifier fields, '
        'control bytes, sizes, packet counts, LE PGN, 1-based in-order sequence numbers, FF padding and reserved bytes, legal FD lengths) to exactly the '
        'submitted message, the conforming peer reassembles it, conforming input is delivered exactly once with PGN/SA/payload and acknowledged '
        '(EndOfMsgACK / EOM ack fields), flow control is obeyed; thorough adds every grant size 1..min(limit, remaining) for 2..12-packet messages; '
        'non-trivial = every exchange; distinct = (layer, role, size class, window class, peer policy)')
ASSUMPTIONS = ['reference leniencies: FD abort bytes, Multi-PG padding bytes and priorities are not judged; PS of a PDU1 PGN in a BAM announcement is normalised',
               'the reference was validated against the literal frame vectors of the pinned suite (tools/selftest.py)']
MIN_OBS = {'exchanges': {'quick': 2800, 'thorough': 28000}, 'stack_originator': {'quick': 1000, 'thorough': 10000}, 'stack_responder': {'quick': 800, 'thorough': 8000},
           'cts_checked': {'quick': 30000, 'thorough': 300000}, 'dt_checked': {'quick': 60000, 'thorough': 600000}, 'holds_exercised': {'quick': 2000, 'thorough': 20000},
           'zero_latency': {'quick': 800, 'thorough': 8000}}


def cases(tier, seed):
    rng = random.Random(3000 + seed)
    out = []
    n = 3000 if tier == 'quick' else 30000
    for i in range(n):
        out.append(xchg.gen_case(rng))
    for i in range(60 if tier == 'quick' else 600):
        c = xchg.gen_case(rng, role='stack_stack')
        c['w2'] = rng.choice([1, 2, 255])
        out.append(c)
    # enumerated grant sizes: for P packets every first grant 1..P, rest maximal
    packs = [2, 3, 5] if tier == 'quick' else list(range(2, 13))
    for layer in ('j1939-21', 'j1939-22'):
        unit = 60 if layer == 'j1939-22' else 7
        for P in packs:
            for g1 in range(1, P + 1):
                for g2 in ([P] if tier == 'quick' else sorted(set([1, 2, P]))):
                    c = xchg.gen_case(rng, layer=layer, role='stack_orig')
                    c.update(size=unit * P - 3, w=255, grant='list', grants=[g1, g2] + [P] * P, holds=(0, 0), reply=(0.0, 0.001), zero=0.0, dt_interval=None)
                    out.append(c)
    return out


def run_case(case):
    r = xchg.run_exchange(case)
    viol = M.Violations()
    for (kind, msg) in r['findings']:
        if kind in ('bam_too_fast', 'bam_too_slow', 'cmdt_too_fast'):
            continue            # pacing is C09's verdict
        viol.add(kind, '%s %s size=%d w=%d: %s' % (case['layer'], case['role'], case['size'], case['w'], msg), layer=case['layer'], role=case['role'])
    fd = case['layer'] == 'j1939-22'
    unit = 60 if fd else 7
    sig = repr((case['layer'], case['role'], case['size'] % unit == 0, min(case['w'], 4), case['grant'], case['holds'][1] > 0, case['zero'] > 0,
                (case['size'] + unit - 1) // unit > case['w']))
    res = dict(violations=list(viol), inconclusive=None, sig=sig, nontrivial=True, obs=r['obs'], sample=r['sample'])
    if r['trace']:
        res['trace'] = r['trace']
    return res
