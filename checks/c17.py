"""C17 -- DM14 memory access returns and stores exactly the addressed data (M-DM14)."""
import random

from vt import monitors as M
from ref import codec as C
from . import dm14lib as D

PROPERTY = 'C17'
LEVEL = 'exploration'
RULE = ('cases = 1-5 back-to-back transactions between a client MemoryAccess/Dm14Query on one stack and a server MemoryAccess with an application '
        'model on another (proceed records its arguments; notify schedules, 1-20 ms later, an application task that answers a read with fresh random '
        'bytes for exactly that request or accepts a write and keeps what respond() returns); object count x size = 1..255 bytes (every length '
        '1..255 in the sweeps; single-frame DM16 up to 7 bytes, RTS/CTS above), sizes 1/2/4/8, signed/unsigned, raw/converted, pointer over '
        '0..2^32-1 incl. boundaries, direct/spatial, seed/key off/on with random seeds, same and different pointers in consecutive transactions, in 30 % of the cases two requesters on different stacks taking turns on the same server, read '
        'after write and write after read, pauses between transactions 0..200 ms (with pause 0 the application thread is switched to at the very put() that hands over the result, inside the receive handler, with probability 0.5/1), windows 1..255, latencies (0,5 ms]; oracle = returned bytes/integers equal what the server application '
        'supplied, respond() on the server returns exactly the written bytes, proceed saw (command, address, pointer type, count) of the request, all '
        'four state attributes IDLE afterwards; non-trivial = >= 1 transaction judged; distinct = (kinds, sizes class, seed/key, raw)')
ASSUMPTIONS = ['the server application knows the object size by convention (DM14 does not transmit it): it supplies count x size bytes',
               'left-over items in internal queues are recorded as a diagnostic; the verdict is on returned / handed-over data and the state attributes']
MIN_OBS = {'transactions': {'quick': 5000, 'thorough': 100000}, 'reads_checked': {'quick': 3000, 'thorough': 60000}, 'writes_checked': {'quick': 1600, 'thorough': 32000},
           'multipacket': {'quick': 2000, 'thorough': 40000}, 'with_seedkey': {'quick': 1500, 'thorough': 30000}, 'converted_reads': {'quick': 1000, 'thorough': 20000},
           'lengths_covered_max': 255, 'eager_switches': {'quick': 800, 'thorough': 16000}}

PTRS = [0, 1, 0xFF, 0x100, 0xFFFF, 0x10000, 0x92000003, 0x7FFFFFFF, 0x80000000, 0xFFFFFFFE, 0xFFFFFFFF]


def cases(tier, seed):
    rng = random.Random(17000 + seed)
    out = []
    n = 2000 if tier == 'quick' else 40000
    for i in range(n):
        out.append(dict(kind='random', seed=rng.randrange(1 << 30)))
    # every byte length 1..255 once as raw read and once as write (size 1), in chunks
    step = 8 if tier == 'quick' else 4
    for lo in range(1, 256, step):
        out.append(dict(kind='sweep', lens=list(range(lo, min(lo + step, 256))), seed=rng.randrange(1 << 30)))
    return out


def gen_op(rng, force_len=None, kind=None):
    size = rng.choice([1, 1, 2, 4, 8])
    if force_len is not None:
        size = 1
        count = force_len
    else:
        nb = rng.choice([rng.randint(1, 255), rng.choice([1, 6, 7, 8, 9, 14, 15, 16, 248, 254, 255]), rng.randint(1, 24)])
        count = max(1, nb // size)
    kind = kind or rng.choice(['read', 'read', 'write'])
    op = dict(kind=kind, size=size, count=count, direct=rng.randrange(2), pointer=rng.choice([rng.choice(PTRS), rng.randrange(1 << 32)]),
              signed=rng.random() < 0.4, raw=rng.random() < 0.5)
    if kind == 'write':
        top = (1 << (8 * size)) - 1
        op['values'] = [rng.choice([0, 1, top, top - 1, top >> 1, (top >> 1) + 1, rng.randint(0, top)]) for _ in range(count)]
    return op


def run_case(case):
    rng = random.Random(case['seed'])
    seedkey = rng.random() < 0.4
    windows = (rng.choice([1, 2, 5, 255]), rng.choice([1, 3, 255]))
    # addresses: the usual ones, or boundary values (0 is falsy, 253 the last claimable one)
    ca_, sa_ = rng.choice([(D.CLI, D.SRV), (D.CLI, D.SRV), (0x00, D.SRV), (D.CLI, 0x00), (253, 1), (rng.randrange(2, 120), rng.randrange(128, 253))])
    two = case['kind'] != 'sweep' and rng.random() < 0.3
    c2 = None
    if two:
        c2 = rng.choice([a for a in (0xE5, 0x00, 0x33, 252) if a not in (ca_, sa_)])
    DW = D.Dm14World(case['seed'], seedkey=seedkey, windows=windows, latency=rng.choice([(0.0001, 0.005), (0.0001, 0.0005)]), cli_addr=ca_, srv_addr=sa_,
                     second_client=c2, app_preempt=float(case.get('app_preempt', 0.0)))
    DW.ctx['respond_inline'] = random.Random(case['seed'] ^ 0x171).random() < 0.25
    viol = M.Violations()
    tag = dict(layer='dm14')
    if case['kind'] == 'sweep':
        ops = []
        for L in case['lens']:
            ops.append(gen_op(rng, L, 'read'))
            ops[-1]['raw'] = True
            ops.append(gen_op(rng, L, 'write'))
    else:
        ops = [gen_op(rng) for _ in range(rng.randint(1, 5))]
        if len(ops) > 1 and rng.random() < 0.4:
            ops[1]['pointer'] = ops[0]['pointer']                 # same pointer again
    via = rng.choice(['facade', 'facade', 'query'])
    for op in ops:
        op['via'] = via
        if two:
            op['client'] = rng.randrange(2)          # the two requesters take turns in random order
    # in a third of the cases the application task continues without any pause, and the operating system may switch to it at the very moment the
    # receive thread hands over the result (in the middle of the receive handler) -- the next request then races the rest of that handler
    gap = rng.choice([0.002, 0.02, 0.2, 0, 0])
    if gap == 0:
        DW.sim.eager_wake = rng.choice([0.5, 1.0])              # (otherwise: the world's own draw, 0 in half of the cases)
    results = DW.run_ops(ops, gap=gap, timeout=2)
    obs = dict(transactions=0, reads_checked=0, writes_checked=0, multipacket=0, with_seedkey=0, converted_reads=0, leftover_queue_items=0,
               lengths_covered_max=0, eager_switches=DW.sim.eager_switches, app_thread_holds=DW.app_holds[0], inline_responds=DW.inline_responds)
    if not DW.finished:
        viol.add('client_hung', 'the client application task never finished its %d operations (states %s)' % (len(ops), DW.states()), **tag)
    M.m_live(viol, DW.W, 'dm14')
    pi = 0
    ri = 0
    for k, r in enumerate(results):
        op = r['op']
        nbytes = op['count'] * op['size']
        obs['transactions'] += 1
        obs['lengths_covered_max'] = max(obs['lengths_covered_max'], nbytes)
        if nbytes > 7:
            obs['multipacket'] += 1
        if seedkey:
            obs['with_seedkey'] += 1
        what = '%s #%d (%d x %d bytes, ptr %#x, direct %d, %s, seed/key %s, via %s, after %s)' % (
            op['kind'], k, op['count'], op['size'], op['pointer'], op['direct'], 'raw' if op.get('raw') else 'values', seedkey, via,
            results[k - 1]['op']['kind'] if k else 'nothing')
        wtag = dict(op=op['kind'], single=nbytes <= 7, first=(k == 0), **tag)
        # proceed arguments
        pcs = DW.proceed_calls[r['n_proceed']:(results[k + 1]['n_proceed'] if k + 1 < len(results) else None)]
        rsp = DW.responds[r['n_respond']:(results[k + 1]['n_respond'] if k + 1 < len(results) else None)]
        if r['exc']:
            viol.add('operation_failed', '%s raised %s (proceed calls %d, server responds %s)' % (what, r['exc'], len(pcs), [(x['plan'][0], x['exc']) for x in rsp]), **wtag)
            continue
        if len(pcs) != 1:
            viol.add('proceed_count', '%s: proceed callback ran %d times' % (what, len(pcs)), **wtag)
        else:
            p = pcs[0]
            want = dict(command=C.DM14_READ if op['kind'] == 'read' else C.DM14_WRITE, address=op['pointer'], pointer_type=op['direct'], object_count=op['count'], sa=DW.client_addrs[op.get('client', 0)])
            got = {a: p[a] for a in want}
            if got != want:
                bad = [a for a in want if got[a] != want[a]]
                viol.add('proceed_args', '%s: proceed was told %s=%r, the client asked for %r' % (what, bad[0], got[bad[0]], want[bad[0]]), arg=bad[0], **wtag)
            if seedkey:
                issued = [s for (t, s) in DW.seeds_issued if t <= p['t']]
                if not issued or p['seed'] != issued[-1] or p['key'] != D.default_algo(issued[-1]):
                    viol.add('proceed_args', '%s: proceed saw seed %r key %r, issued seed %r' % (what, p['seed'], p['key'], issued[-1:] or None), arg='seedkey', **wtag)
        if len(rsp) != 1 or rsp[0]['exc']:
            viol.add('server_respond', '%s: server application respond() ran %d times / raised %s' % (what, len(rsp), rsp[0]['exc'] if rsp else None), **wtag)
            continue
        s = rsp[0]
        if op['kind'] == 'read':
            obs['reads_checked'] += 1
            supplied = s['data']
            if op['raw']:
                try:
                    got = bytes(r['ret'])
                except Exception:
                    got = None
                if got != supplied:
                    viol.add('read_data', '%s returned %s, the server application supplied %s (%d bytes)'
                             % (what, (got.hex() if got is not None else repr(r['ret']))[:60], supplied.hex()[:60], len(supplied)),
                             how='empty' if not r['ret'] else 'differs', **wtag)
            else:
                obs['converted_reads'] += 1
                want = D.decode_values(supplied, op['size'], op['signed'])
                if list(r['ret'] or []) != want:
                    viol.add('read_values', '%s (signed=%s) returned %s, the supplied bytes %s encode %s'
                             % (what, op['signed'], str(r['ret'])[:80], supplied.hex()[:40], str(want)[:80]), how='empty' if not r['ret'] else 'differs', **wtag)
        else:
            obs['writes_checked'] += 1
            want = D.encode_values(op['values'], op['size'])
            if s['ret'] != want:
                viol.add('write_data', '%s: the server application was handed %s, the written values encode %s'
                         % (what, s['ret'].hex()[:60] if isinstance(s['ret'], bytes) else repr(s['ret']), want.hex()[:60]), **wtag)
    idle = DW.idle_problems()
    if idle and DW.finished:
        viol.add('not_idle', 'after %s: %s' % ([(o['kind'], o['count'] * o['size']) for o in ops], ', '.join(idle)), which=idle[0].split('=')[0], **tag)
    st = DW.states()
    obs['leftover_queue_items'] = st['cli_data_q'] + st['cli_exc_q'] + st.get('srv_data_q', 0)
    sig = repr((tuple((o['kind'], 's' if o['count'] * o['size'] <= 7 else 'm', o['size'], o.get('raw')) for o in ops), seedkey, via))
    sample = dict(case=case, seedkey=seedkey, windows=windows, via=via,
                  ops=[(o['kind'], o['count'], o['size'], hex(o['pointer']), o['direct'], o.get('raw'), o.get('signed')) for o in ops][:6],
                  results=[(str(r['ret'])[:40], r['exc']) for r in results][:6], states=st, frames=[f.brief() for f in DW.W.bus.frames[:8]])
    res = dict(violations=list(viol), inconclusive=None, sig=sig, nontrivial=obs['transactions'] > 0, obs=obs, sample=sample)
    if case.get('trace'):
        res['trace'] = [f.brief() for f in DW.W.bus.frames[:300]]
    DW.close()
    return res
