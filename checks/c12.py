"""C12 -- timers fire when due and callback registrations mean what they say (M-TIMER)."""
import random

from vt.world import World
from vt import engine
from vt import monitors as M
from vt.bus import ScriptNode
from ref import codec as C

PROPERTY = 'C12'
LEVEL = 'exploration'
SLACK = 0.0005      # engine wake-up jitter is <= 150 us; an idle ECU has no other latency
REL = 1e-4          # float quantisation of epoch-scale deadlines (ulp 0.24 us per += delta): tolerated relative error
RULE = ('cases = seeded random histories of up to 12 add_timer / remove_timer / subscribe / unsubscribe operations (periods on the grid '
        '1,2,5,10,20,50,100,250,500,1000,3000 ms; one-shot, n-shot and periodic callbacks; duplicate registrations of one callback; operations '
        'issued by the application or from inside a timer callback incl. self-removal; through the ECU or the CA API; idle gaps 0..6 s); a '
        'broadcast frame is injected after every (un)subscribe; oracle = shadow timer model built from the operation log (k-th call of a '
        'registration in [t+k*delta, t+k*delta+0.5ms] (+-100 ppm for float quantisation of the deadline), nothing after remove/unsubscribe returned, subscriber called once per live registration); '
        'non-trivial = >=2 timer calls checked; distinct = multiset of operation kinds + who issued them')
ASSUMPTIONS = ['scheduling latency is the engine wake-up jitter (<=150us), slack 0.5 ms; time the job thread spends inside a (deliberately slow) callback is known to the harness and excuses exactly that much lateness',
               'unsubscribe is not issued from inside a message callback (the DM14 code relies on the resulting skip; the property does not cover it)']
MIN_OBS = {'timer_calls_checked': {'quick': 3000, 'thorough': 100000}, 'removals': {'quick': 200, 'thorough': 5000},
           'ops_from_callback': {'quick': 100, 'thorough': 2000}, 'subscriber_calls_checked': {'quick': 300, 'thorough': 5000},
           'busy_intervals': {'quick': 100, 'thorough': 3000}}

GRID = [0.001, 0.002, 0.005, 0.010, 0.020, 0.050, 0.100, 0.250, 0.500, 1.000, 3.000]


def cases(tier, seed):
    rng = random.Random(12000 + seed)
    n = 700 if tier == 'quick' else 24000
    return [dict(seed=rng.randrange(1 << 30)) for _ in range(n)]


def gen_history(rng):
    """-> (callback specs, top-level ops).  An op is a dict; ops nested in a callback spec run inside that callback."""
    ncb = rng.randint(1, 4)
    cbs = []
    for i in range(ncb):
        style = rng.choice(['oneshot', 'oneshot', 'periodic', 'periodic', 'nshot'])
        # some callbacks take (virtual) time: the job thread is busy meanwhile, other timers become overdue, periodic ones overrun
        block = {}
        if rng.random() < 0.25:
            for at_call in rng.sample([1, 2, 3, 4], rng.randint(1, 2)):
                block[at_call] = rng.choice([0.0015, 0.004, 0.03, 0.12, 0.26, 0.7])
        cbs.append(dict(id=i, n_true=0 if style == 'oneshot' else (10 ** 9 if style == 'periodic' else rng.randint(1, 4)), inner={}, block=block))
    nops = rng.randint(1, 12)
    ops = []
    t = 0.02
    budget = nops
    have_timer = []
    have_sub = []
    k = 0
    while budget > 0:
        budget -= 1
        kind = rng.choices(['add', 'add', 'add', 'remove', 'subscribe', 'unsubscribe'], [4, 3, 2, 3, 1.5, 1.5])[0]
        if kind == 'remove' and not have_timer:
            kind = 'add'
        if kind == 'unsubscribe' and not have_sub:
            kind = 'subscribe'
        op = dict(kind=kind, via=rng.choice(['ecu', 'ca']))
        if kind == 'add':
            op['cb'] = rng.choice(have_timer) if (have_timer and rng.random() < 0.35) else rng.randrange(ncb)
            # mostly the coarse grid; in a third of the registrations any value k ms on the 1 ms grid up to 3 s (over the run every value), and now
            # and then a value between the milliseconds
            op['delta'] = rng.choice([rng.choice(GRID), rng.choice(GRID), rng.randint(1, 3000) / 1000.0 if rng.random() < 0.9 else round(rng.uniform(0.0015, 2.5), 6)])
            have_timer.append(op['cb'])
        elif kind == 'remove':
            op['cb'] = rng.choice(have_timer)
        elif kind == 'subscribe':
            op['cb'] = rng.choice(have_sub) if (have_sub and rng.random() < 0.4) else rng.randrange(ncb)
            have_sub.append(op['cb'])
        else:
            op['cb'] = rng.choice(have_sub)
        # issued by the application or from inside a timer callback?
        if have_timer and rng.random() < 0.3 and ops:
            host = rng.choice(have_timer)
            at_call = rng.randint(1, 3)
            cbs[host]['inner'].setdefault(at_call, []).append(op)
            op['inside'] = host
        else:
            t += rng.choice([0.0, 0.0, 0.0003, 0.0137, 0.1011, 0.3503, 1.2009, 6.0007])
            if rng.random() < 0.6:
                t += 0.00011 * (k + 1)       # otherwise at exactly the same instant as the previous operation (timers due in one pass)
            op['t'] = t
            ops.append(op)
        k += 1
    if ncb >= 2 and rng.random() < 0.25:
        # "the response handler cancels the time-out handler": two timers with the same period registered at one instant (both due in the
        # same pass of the job thread), the first one removes the second from inside its callback
        x, y = rng.sample(range(ncb), 2)
        d = rng.choice(GRID[2:9])
        t += rng.choice([0.0, 0.05, 0.4])
        ops.append(dict(kind='add', via='ecu', cb=x, delta=d, t=t))
        ops.append(dict(kind='add', via=rng.choice(['ecu', 'ca']), cb=y, delta=d, t=t))
        for at_call in (1, 2, 3):
            cbs[x]['inner'].setdefault(at_call, []).append(dict(kind='remove', via='ecu', cb=y, inside=x))
    return cbs, ops


def ncalls_hint(spec, ops, x):
    # the call number at which the pattern's first timer fires is not known statically (the callback may have other registrations);
    # attach the removal to its next few calls
    return 1


def run_case(case):
    rng = random.Random(case['seed'])
    layer = rng.choice(['j1939-21', 'j1939-21', 'j1939-22'])
    W = World(case['seed'], layer, (0.0001, 0.001))
    sim = W.sim
    viol = M.Violations()
    node = W.stack('A')
    ca = W.ca(node, 0x10, identity_number=1)
    inj = ScriptNode(W.bus, 'INJ')
    cbs, ops = gen_history(rng)

    oplog = []        # (t, kind, cb, delta, reg id, issued_by)
    calls = []        # timer calls: (t, cb, reg id)
    busy = []         # [start, end] of callbacks that took time (job thread occupied)
    subcalls = []     # (t, cb, marker)
    ncalls = {}
    next_reg = [0]
    api = {'ecu': node.ecu, 'ca': ca}
    timer_fns = {}
    sub_fns = {}
    marker = [0]

    def do(op, issued_by):
        kind = op['kind']
        a = api[op['via']]
        if kind == 'add':
            rid = next_reg[0]
            next_reg[0] += 1
            t0 = sim.now
            a.add_timer(op['delta'], timer_fns[op['cb']], rid)
            oplog.append((t0, 'add', op['cb'], op['delta'], rid, issued_by))
        elif kind == 'remove':
            a.remove_timer(timer_fns[op['cb']])
            oplog.append((sim.now, 'remove', op['cb'], None, None, issued_by))
        elif kind == 'subscribe':
            if op['via'] == 'ca':
                ca.subscribe(sub_fns[op['cb']])
            else:
                node.ecu.subscribe(sub_fns[op['cb']])
            oplog.append((sim.now, 'subscribe', op['cb'], None, None, issued_by))
            if issued_by == 'app':
                inject()
        elif kind == 'unsubscribe':
            a.unsubscribe(sub_fns[op['cb']])
            oplog.append((sim.now, 'unsubscribe', op['cb'], None, None, issued_by))
            if issued_by == 'app':
                inject()

    def inject():
        # a PDU2 broadcast a little later; the marker identifies the frame
        marker[0] += 1
        mk = marker[0]

        def go():
            oplog.append((sim.now, 'inject', mk, None, None, 'app'))
            inj.send(C.make_id(6, 0, 0xFF, 0x10, 0x80), bytes([mk & 0xFF, mk >> 8, 0, 0, 0, 0, 0, 0]))
        sim.after(0.0021, go)

    def mk_timer(spec):
        def fn(cookie):
            i = spec['id']
            ncalls[i] = ncalls.get(i, 0) + 1
            calls.append((sim.now, i, cookie))
            for op in spec['inner'].get(ncalls[i], []):
                do(op, 'cb%d' % i)
            d = spec['block'].get(ncalls[i])
            if d:
                rec_b = [sim.now, None]          # recorded when the slow callback starts: the run may end while it is still busy
                busy.append(rec_b)
                engine._vsleep(d)
                rec_b[1] = sim.now
            return ncalls[i] <= spec['n_true']
        return fn

    def mk_sub(spec):
        def fn(priority, pgn, sa, timestamp, data):
            subcalls.append((sim.now, spec['id'], data[0] | (data[1] << 8)))
        return fn
    for spec in cbs:
        timer_fns[spec['id']] = mk_timer(spec)
        sub_fns[spec['id']] = mk_sub(spec)
    W.run(0.01)
    for op in ops:
        sim.at(op['t'], do, op, 'app')
    end = max([op['t'] for op in ops] + [0.02]) + 7.5
    # inner (un)subscribes are probed by periodic injections during the tail
    t = 0.05
    while t < end - 0.01:
        sim.at(t + 0.00037, inject)
        t += rng.choice([0.25, 0.5, 1.0])
    W.run(end)
    for rec_b in busy:
        if rec_b[1] is None:
            rec_b[1] = end + 60.0          # still inside a slow callback when the run ended

    # ------------------------------------------------------------------ shadow model
    obs = dict(busy_intervals=0, timer_calls_checked=0, removals=0, ops_from_callback=0, subscriber_calls_checked=0, registrations=0, late_max_us=0)
    M.m_live(viol, W, layer)
    dead = bool(W.liveness_problems())
    oplog.sort(key=lambda e: e[0])
    regs = {}
    for (t0, kind, cb, delta, rid, by) in oplog:
        if by != 'app':
            obs['ops_from_callback'] += 1
        if kind == 'add':
            regs[rid] = dict(cb=cb, delta=delta, t=t0, removed=None, calls=[], by=by)
            obs['registrations'] += 1
        elif kind == 'remove':
            obs['removals'] += 1
            for r in regs.values():
                if r['cb'] == cb and r['removed'] is None and r['t'] <= t0:
                    r['removed'] = t0
    for (tc, cb, rid) in calls:
        r = regs.get(rid)
        if r is None:
            viol.add('timer_unknown_cookie', 'timer callback %d called with cookie %r that was never registered' % (cb, rid), layer=layer)
            continue
        r['calls'].append(tc)
    # number of True returns each callback gave is global per callback (ncalls), reconstruct per registration in time order
    ret_true = {}
    seq = {}
    for (tc, cb, rid) in sorted(calls):
        seq[cb] = seq.get(cb, 0) + 1
        ret_true[(rid, tc)] = seq[cb] <= cbs[cb]['n_true']
    def busy_overlap(a, b):
        tot = 0.0
        for (s0, e0) in busy:
            lo, hi = max(a, s0), min(b, e0)
            if hi > lo:
                tot += hi - lo
        return tot

    obs['busy_intervals'] = len(busy)
    for rid, r in regs.items():
        # grid model: deadlines lie on g_j = t_reg + j*delta; a call serves one grid point; points that were already overdue when the previous
        # call was served are skipped (the library's overrun rule); lateness beyond the slack must be covered by time the job thread was busy
        cl = sorted(r['calls'])
        who = 'app' if r['by'] == 'app' else 'callback'
        D_ = r['delta']
        T0 = r['t']
        alive = True
        j_prev = 0
        floor_prev = 0
        c_prev = None
        n = 0
        for tc in cl:
            n += 1
            obs['timer_calls_checked'] += 1
            tol = 20e-6 + REL * (tc - T0)
            if r['removed'] is not None and tc > r['removed'] + 1e-7:
                viol.add('called_after_remove', 'registration %d (cb %d, delta %.3f) called at %.6f after remove_timer returned at %.6f'
                         % (rid, r['cb'], D_, tc, r['removed']), layer=layer, issued_by=who)
                break
            if not alive:
                viol.add('called_after_false', 'registration %d (cb %d) called again at %.6f after it returned a non-True value' % (rid, r['cb'], tc), layer=layer)
                break
            fl = int((tc + tol - T0) / D_)                        # grid points due by tc
            hi = fl if n == 1 else min(fl, floor_prev + 1)
            lo = 1 if n == 1 else j_prev + 1
            if n == 1:
                hi = min(hi, 1) if fl >= 1 else hi                # the first call serves the first grid point
            chosen = None
            for j in range(lo, hi + 1):
                g = T0 + j * D_
                late = tc - g - busy_overlap(g, tc)
                if late <= SLACK + tol:
                    chosen = j
                    obs['late_max_us'] = max(obs['late_max_us'], int(max(late, 0) * 1e6))
                    break
            if chosen is None:
                if hi < lo:
                    g = T0 + lo * D_
                    viol.add('timer_early', 'registration %d (cb %d, delta %.3f, registered %.6f) call #%d at %.6f: no grid point was due (next one %.6f, %.1f us ahead; previous call %s)'
                             % (rid, r['cb'], D_, T0, n, tc, g, (g - tc) * 1e6, '%.6f' % c_prev if c_prev else 'none'), layer=layer, periodic=n > 1)
                    chosen = lo
                elif not dead:
                    g = T0 + hi * D_
                    viol.add('timer_late', 'registration %d (cb %d, delta %.3f, registered %.6f by %s) call #%d at %.6f is %.3f ms after grid point %.6f (job thread busy %.3f ms of that)'
                             % (rid, r['cb'], D_, T0, r['by'], n, tc, (tc - g) * 1e3, g, busy_overlap(g, tc) * 1e3), layer=layer, periodic=n > 1)
                    chosen = hi
                else:
                    chosen = max(lo, hi)
            j_prev = chosen
            floor_prev = max(fl, chosen)
            c_prev = tc
            alive = ret_true.get((rid, tc), False)
        # a call that was due and never came
        if alive and not dead:
            j_next = (floor_prev + 1) if n else 1
            due = T0 + j_next * D_
            lim = due + SLACK + REL * (due - T0) + busy_overlap(due, end) + 20e-6
            if lim < end - 0.01 and (r['removed'] is None or r['removed'] > lim):
                viol.add('timer_missing', 'registration %d (cb %d, delta %.3f, registered %.6f by %s) was due at %.6f at the latest and was not called (run ended %.3f, %d calls so far)'
                         % (rid, r['cb'], D_, T0, r['by'], due, end, n), layer=layer, periodic=n > 0)
    # subscribers: per injected frame, calls of cb == live registrations of cb when the frame was delivered
    live = {}
    windows = []      # (t_inject, mk, snapshot of live)
    for (t0, kind, cb, delta, rid, by) in oplog:
        if kind == 'subscribe':
            live[cb] = live.get(cb, 0) + 1
        elif kind == 'unsubscribe':
            live[cb] = 0
        elif kind == 'inject':
            windows.append((t0, cb, dict(live)))
    # an (un)subscribe within the delivery latency of an injection makes the count ambiguous: skip those frames
    changes = [e[0] for e in oplog if e[1] in ('subscribe', 'unsubscribe')]
    for (ti, mk, snap) in windows:
        if any(ti - 1e-6 <= tc <= ti + 0.0012 for tc in changes):
            continue
        got = {}
        for (tc, cb, m) in subcalls:
            if m == mk:
                got[cb] = got.get(cb, 0) + 1
        for cb in set(got) | set(snap):
            obs['subscriber_calls_checked'] += 1
            if got.get(cb, 0) != snap.get(cb, 0):
                if snap.get(cb, 0) == 0:
                    viol.add('called_after_unsubscribe', 'subscriber %d called %d time(s) for frame %d although it had no live registration'
                             % (cb, got.get(cb, 0), mk), layer=layer)
                else:
                    viol.add('subscriber_count', 'subscriber %d called %d time(s) for frame %d with %d live registration(s)'
                             % (cb, got.get(cb, 0), mk, snap.get(cb, 0)), layer=layer)
    kinds = sorted((e[1], 'app' if e[5] == 'app' else 'cb') for e in oplog if e[1] != 'inject')
    sig = repr((layer, tuple(kinds)))
    sample = dict(case=case, layer=layer, callbacks=[dict(id=c['id'], n_true=min(c['n_true'], 99), inner={str(k): v for k, v in c['inner'].items()}) for c in cbs],
                  ops=[(round(e[0], 5), e[1], e[2], e[3], e[5]) for e in oplog if e[1] != 'inject'][:16],
                  timer_calls=[(round(c[0], 5), c[1], c[2]) for c in calls[:12]], total_timer_calls=len(calls))
    res = dict(violations=list(viol), inconclusive=None, sig=sig, nontrivial=obs['timer_calls_checked'] >= 2, obs=obs, sample=sample)
    if case.get('trace'):
        res['trace'] = dict(oplog=oplog, calls=calls, subcalls=subcalls)
    W.close()
    return res
