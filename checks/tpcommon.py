"""Shared multi-stack transport workload + oracle for C01 (J1939-21) and C02 (J1939-22)."""
import random
import threading
import collections

from vt.world import World
from vt import monitors as M
from vt import preempt
from vt.bus import order_fingerprint
from ref import sniffer as SN
from ref import codec as C

PROTO_PF_21 = (0xEA, 0xEB, 0xEC, 0xEE)
PROTO_PF_22 = (0xEA, 0xEE, 0x4D, 0x4E, 0x25, 0xEB, 0xEC)

BOUNDARY_21 = [0, 1, 7, 8, 9, 13, 14, 15, 16, 20, 21, 22, 28, 63, 64, 1778, 1779, 1780, 1781, 1782, 1783, 1784, 1785]
BOUNDARY_22 = [61, 62, 119, 120, 121, 179, 180, 181, 240, 600, 601]


def gen_message(rng, fd, eps, m_idx, lengths=None, modes=None, src=None):
    """eps: endpoints [dict(stack, addr, kind)]; a destination-specific message goes to an endpoint on another stack"""
    n = len(eps)
    src = rng.randrange(n) if src is None else src
    others = [j for j in range(n) if eps[j]['stack'] != eps[src]['stack']]
    mode = rng.choice(modes or ['p2p', 'p2p', 'bam1', 'bam2'])
    if lengths:
        L = rng.choice(lengths)
    elif fd:
        L = rng.choice([rng.randint(61, 3000), rng.choice(BOUNDARY_22), rng.randint(61, 200), 60 * rng.randint(2, 30) + rng.choice([-1, 0, 1])])
    else:
        L = rng.choice([rng.randint(0, 1785), rng.choice(BOUNDARY_21), rng.randint(0, 40), min(1785, 7 * rng.randint(1, 255) + rng.choice([-1, 0, 1]))])
    data = [rng.randrange(256) for _ in range(L)]
    # unique tag where there is room: message index + source endpoint
    if L >= 3:
        data[0] = m_idx & 0xFF
        data[1] = (m_idx >> 8) & 0xFF
        data[2] = src
    proto = PROTO_PF_22 if fd else PROTO_PF_21
    dp = rng.randrange(2)
    prio = rng.randrange(8)
    if mode == 'p2p':
        dst = rng.choice(others)
        pf = rng.randrange(0, 240)
        while pf in proto:
            pf = rng.randrange(0, 240)
        ps = eps[dst]['addr']
    elif mode == 'bam1':
        dst = None
        pf = rng.randrange(0, 240)
        while pf in proto:
            pf = rng.randrange(0, 240)
        ps = 255
    else:
        dst = None
        pf = rng.randrange(240, 256)
        ps = rng.randrange(256)
    return dict(m=m_idx, src=src, dst=dst, mode=mode, dp=dp, pf=pf, ps=ps, prio=prio, data=data, acc=None, exc=None)


def run_scenario(case, layer):
    """case keys: seed, [n], [zero], [msgs = explicit list], [count], [lengths], [modes], [windows], [capacity]"""
    fd = layer == 'j1939-22'
    rng = random.Random(case['seed'])
    n = case.get('n') or rng.choice([2, 2, 3] if fd else [2, 2, 3, 4])
    zero = 0.0 if fd else case.get('zero', rng.choice([0.0, 0.0, 0.3, 1.0]))
    lat = case.get('lat') or rng.choice([(1e-5, 0.005), (1e-5, 0.0003), (0.004, 0.005)])
    W = World(case['seed'], layer, tuple(lat), zero)
    sim = W.sim
    viol = M.Violations()
    # endpoints: per stack one CA, two CAs, or no CA at all (ECU-level listener bound to an integer address, sending through ecu.send_pgn)
    # (int2 / intca: two applications on one stack of which at least one is an ECU-level listener bound to an integer address)
    layouts = case.get('layouts') or [rng.choice(['ca', 'ca', 'ca', 'ca2', 'int', 'int2', 'intca']) for _ in range(n)]
    n_eps = sum(2 if l in ('ca2', 'int2', 'intca') else 1 for l in layouts)
    addrs = rng.sample(range(0, 254), n_eps)
    if rng.random() < 0.2 and 0 not in addrs:
        addrs[rng.randrange(n_eps)] = 0           # address 0 is a perfectly good (and falsy) address
    if rng.random() < 0.1 and 253 not in addrs:
        addrs[rng.randrange(n_eps)] = 253
    windows = case.get('windows') or [rng.choice([1, 1, 2, 3, 5, 16, 255, rng.randint(1, 255)]) for _ in range(n)]
    bam_iv = case.get('bam_interval')
    dt_ivs = case.get('dt_intervals') or [rng.choice([None, None, None, None, 0.001, 0.005, 0.02]) for _ in range(n)]
    rxp = case.get('rxp', random.Random(case['seed'] ^ 0x5A17).random() < 0.15)
    rx_holds = [0]
    hold_logs = collections.defaultdict(list)     # stack index -> (t0, t1, function, line) of every injected hold of its receive thread
    eps = []
    senders = []
    triggers = collections.defaultdict(list)      # listener key -> chained submissions waiting for a delivery at that listener
    submit_ref = []

    def mk_listener(key):
        lst = W.deliv[key]

        def cb(priority, pgn, sa, timestamp, data):
            try:
                b = bytes(data)
            except Exception:
                b = repr(data).encode()
            lst.append((sim.now, priority, pgn, sa, b))
            for ch in list(triggers.get(key, ())):
                if ch['match'](pgn, sa, b):
                    triggers[key].remove(ch)
                    submit_ref[0](ch['msg'])          # the application submits its next message from inside the callback
        return cb
    for i in range(n):
        kw = dict(max_cmdt_packets=windows[i])
        if bam_iv is not None:
            kw['minimum_tp_bam_dt_interval'] = bam_iv
        if dt_ivs[i] is not None:
            kw['minimum_tp_rts_cts_dt_interval'] = dt_ivs[i]
        if rxp:
            # frames are handled by a receive thread of their own, which is suspended at random source lines of its handlers while the job
            # thread of the same stack is made to run (one-shot timer due in the middle of the hold)
            holder = []
            kw['rx_thread'] = True
            kw['rx_trace'] = preempt.random_tracer(sim, case['seed'] ^ (0x77 + i), p=0.003, holds=(0.0002, 0.001, 0.003), counter=rx_holds, log=hold_logs[i],
                                                   kick=lambda h, _h=holder: _h[0].ecu.add_timer(h / 2, lambda cookie: False))
        node = W.stack('N%d' % i, **kw)
        if rxp:
            holder.append(node)
            if random.Random(case['seed'] ^ (0x51 + i)).random() < 0.5:
                node.send_time = (0.0, 0.002)        # a slow interface: each send call blocks its (controlled) caller up to 2 ms
        if rng.random() < 0.2:
            node.ecu.add_timer(rng.choice([0.003, 0.03, 0.9, 2.0]), lambda c: True)       # unrelated periodic application timer
        W.listen_ecu(node, ('ecu', i))
        for k in range(2 if layouts[i] in ('ca2', 'int2', 'intca') else 1):
            a = addrs[len(eps)]
            e = len(eps)
            if layouts[i] in ('int', 'int2') or (layouts[i] == 'intca' and k == 0):
                node.ecu.subscribe(mk_listener(('int', e)), a)
                senders.append(lambda dp, pf, ps, prio, data, _n=node, _a=a: _n.ecu.send_pgn(dp, pf, ps, prio, _a, data))
                eps.append(dict(stack=i, addr=a, kind='int'))
            else:
                ca = W.ca(node, a, identity_number=10 * i + k + 1)
                ca.subscribe(mk_listener(('ca', e)))
                senders.append(ca.send_pgn)
                eps.append(dict(stack=i, addr=a, kind='ca'))
    W.run(0.01)
    if W.harness_problems:
        W.close()
        return dict(violations=[], inconclusive='; '.join(W.harness_problems), sig='harness', nontrivial=False, obs={}, sample=None)

    # ---- workload ------------------------------------------------------------------------
    msgs = []
    if case.get('sequential'):
        # explicit lengths, one after the other on fixed pairs (sweeps)
        t = 0.02
        unit = 60 if fd else 7
        for k, (mode, L) in enumerate(case['sequential']):
            m = gen_message(rng, fd, eps, k, lengths=[L], modes=[mode])
            m['t'] = t
            msgs.append(m)
            iv = (bam_iv if bam_iv is not None else (0.010 if fd else 0.050))
            pk = (L + unit - 1) // unit
            if L <= (60 if fd else 8):
                t += 0.02
            elif mode == 'p2p':
                t += 0.05 + pk * 0.012
            else:
                t += 0.05 + (pk + 2) * (iv + 0.001)
    else:
        count = case.get('count') or rng.randint(1, 12)
        burst = rng.choice(['same', 'spread', 'wide'])
        for k in range(count):
            m = gen_message(rng, fd, eps, k, case.get('lengths'), case.get('modes'))
            if burst == 'same':
                m['t'] = 0.02 + rng.choice([0.0, 0.0, rng.uniform(0, 0.002)])
            elif burst == 'spread':
                m['t'] = 0.02 + rng.uniform(0, 0.08)
            else:
                m['t'] = 0.02 + rng.uniform(0, 2.5)
            msgs.append(m)
        if case.get('capacity'):
            # FD: overload one originator: > 8 p2p and > 4 bam at one instant
            extra = []
            src_eps = [j for j in range(len(eps)) if eps[j]['stack'] == 0]
            for k in range(case['capacity']):
                m = gen_message(rng, fd, eps, count + k, lengths=[rng.randint(200, 900)], modes=[rng.choice(['p2p', 'p2p', 'bam2'])], src=rng.choice(src_eps))
                m['t'] = 0.5
                extra.append(m)
            msgs.extend(extra)
    # chained submissions: the application sends its next message from inside a delivery callback -- at the originator when the end-of-message
    # acknowledgement of a transfer is reported, or at a receiver as the reply to a message it has just been given
    chained = []
    if not case.get('sequential') and rng.random() < 0.35:
        parents = [m for m in msgs if len(m['data']) > (60 if fd else 8)]
        rng.shuffle(parents)
        for par in parents[:rng.randint(1, 3)]:
            k = len(msgs) + len(chained)
            if par['mode'] == 'p2p' and rng.random() < 0.5:
                # at the originator, on the end-of-message notification: next message to the same peer (or a broadcast)
                ch = gen_message(rng, fd, eps, k, case.get('lengths'), ['p2p', 'p2p', 'bam2'], src=par['src'])
                if ch['mode'] == 'p2p':
                    ch['dst'] = par['dst']
                    ch['ps'] = eps[par['dst']]['addr']
                key = (eps[par['src']]['kind'], par['src'])
                want_sa, want_pgn = eps[par['dst']]['addr'], M.norm_pgn((par['dp'] << 16) | (par['pf'] << 8))
                payload = bytes(par['data'])
                triggers[key].append(dict(msg=ch, match=lambda pgn, sa, b, _s=want_sa, _p=want_pgn, _pl=payload: sa == _s and M.norm_pgn(pgn) == _p and b != _pl))
                ch['chain'] = 'on_eom'
            else:
                # at a receiver, on delivery of the parent: a reply to the parent's sender
                rcv = par['dst'] if par['dst'] is not None else rng.choice([j for j in range(len(eps)) if eps[j]['stack'] != eps[par['src']]['stack']])
                ch = gen_message(rng, fd, eps, k, case.get('lengths'), ['p2p', 'p2p', 'bam1'], src=rcv)
                if ch['mode'] == 'p2p':
                    ch['dst'] = par['src']
                    ch['ps'] = eps[par['src']]['addr']
                key = (eps[rcv]['kind'], rcv)
                payload = bytes(par['data'])
                triggers[key].append(dict(msg=ch, match=lambda pgn, sa, b, _pl=payload: b == _pl))
                ch['chain'] = 'on_rx'
            if len(ch['data']) >= 3:
                ch['data'][2] = ch['src']
            ch['t'] = None
            chained.append(ch)
    msgs.sort(key=lambda m: (m['t'], m['m']))

    inflight_frames = []

    def submit(m):
        n0 = len(W.bus.frames)
        rec = W.call('send_pgn', senders[m['src']], m['dp'], m['pf'], m['ps'], m['prio'], list(m['data']))
        m['acc'] = rec['ret']
        m['exc'] = rec['exc']
        m['t_sub'] = rec['t0']
        m['frames_during_call'] = (n0, len(W.bus.frames))
        m['call_thread'] = threading.get_ident()
    submit_ref.append(submit)
    for m in msgs:
        sim.at(m['t'], submit, m)
    last_t = max(m['t'] for m in msgs)
    msgs = msgs + chained
    unit = 60 if fd else 7
    iv = bam_iv if bam_iv is not None else (0.010 if fd else 0.050)
    longest = max([0.0] + [((len(m['data']) + unit - 1) // unit + 3) * (iv + 0.001) for m in msgs if m['mode'] != 'p2p'])
    longest = max(longest, max([0.0] + [((len(m['data']) + unit - 1) // unit) * (0.012 + (dt_ivs[eps[m['src']]['stack']] or 0)) for m in msgs if m['mode'] == 'p2p']))
    W.run(last_t + longest * (2 if chained else 1) + 5.0)

    # ---- oracle: M-DELIV -------------------------------------------------------------------
    expected = collections.defaultdict(list)
    eom_allow = []
    n_acc = n_ref = 0
    msgs = [m for m in msgs if 't_sub' in m]          # chained messages whose trigger never came were never submitted
    for m in msgs:
        if m['exc']:
            viol.add('send_raised', 'send_pgn raised %s for %s' % (m['exc'], brief(m)), layer=layer)
            continue
        if m['acc'] is not True:
            n_ref += 1
            a, b = m['frames_during_call']
            # frames logged during the synchronous call that were sent by this node = side effect of a refused call
            # (sent by the calling thread: when the call is made from a pre-emptible receive thread other threads of the stack may send meanwhile)
            own = [f for f in W.bus.frames[a:b] if f.src == 'N%d' % eps[m['src']]['stack'] and f.thread == m.get('call_thread', f.thread)]
            if own:
                viol.add('refused_call_emitted', 'send_pgn returned %r but put %d frame(s) on the bus: %s' % (m['acc'], len(own), own[0].brief()), layer=layer)
            continue
        n_acc += 1
        pgn = M.expected_pgn(m['dp'], m['pf'], m['ps'])
        tag = dict(mode=m['mode'], m=m['m'], len=len(m['data']))
        s_stack = eps[m['src']]['stack']
        item = (pgn, addrs[m['src']], bytes(m['data']), tag)
        for j, e in enumerate(eps):
            if e['stack'] == s_stack:
                continue
            if m['dst'] is None or m['dst'] == j:
                expected[(e['kind'], j)].append(item)
        for t in range(n):
            if t != s_stack and (m['dst'] is None or eps[m['dst']]['stack'] == t):
                expected[('ecu', t)].append(item)
        if m['mode'] == 'p2p' and len(m['data']) > (60 if fd else 8):
            pk = (len(m['data']) + unit - 1) // unit
            # the end-of-message acknowledgement may be reported to the listeners bound to the originator's address (and unfiltered ones)
            eom_allow.append(dict(pgn=(m['dp'] << 16) | (m['pf'] << 8), sa=addrs[m['dst']], size=len(m['data']), pk=pk, used=set(),
                                  keys={(eps[m['src']]['kind'], m['src']), ('ecu', s_stack)}))

    eom_seen = [0]

    def eom_ok(key, item):
        t, prio, pgn, sa, data = item
        for al in eom_allow:
            if key not in al['keys'] or key in al['used'] or al['sa'] != sa or M.norm_pgn(pgn) != M.norm_pgn(al['pgn']):
                continue
            # the form of the notification is the stack's business (today: the bytes of the acknowledgement frame); what is judged is that
            # there is at most one per completed transfer, at the originator's listeners, from the responder, for the transferred PGN
            al['used'].add(key)
            eom_seen[0] += 1
            return True
        return False

    compared = M.m_deliv(viol, expected, W.deliv, eom_ok, layer, describe=lambda tg: '%s message #%d len %d' % (tg['mode'], tg['m'], tg['len']))
    tables = M.m_quiet(viol, W, layer)
    M.m_live(viol, W, layer)
    if W.bus.rx_exc:
        viol.add('listener_leaked_exception', 'exception escaped a MessageListener: %s' % (W.bus.rx_exc[0],), layer=layer)

    # ---- refused calls must be justified (M-CAP, from the bus log only) ----------------------
    sn = SN.sniff(layer, W.bus.frames)
    for m in msgs:
        if m['acc'] is True or m['exc']:
            continue
        big = len(m['data']) > (60 if fd else 8)
        if not big:
            viol.add('refused_single', 'send_pgn returned %r for a %d-byte message' % (m['acc'], len(m['data'])), layer=layer)
            continue
        sa = addrs[m['src']]
        da = 255 if m['mode'] != 'p2p' else addrs[m['dst']]
        mode = 'bam' if da == 255 else 'cmdt'
        # sessions of this originator that were open on the bus at submission time
        me = 'N%d' % eps[m['src']]['stack']
        # a session that has ended on the bus is still the stack's until its threads have had time to see the last frame and release it:
        # 20 ms of their own time, i.e. not counting the time the harness kept them blocked in a slow send call or parked at a source line
        blocked = [(a, b) for (a, b) in W.stacks[eps[m['src']]['stack']].slow_log] + [(h[0], h[1]) for h in hold_logs[eps[m['src']]['stack']]]

        def stolen(t0, t1):
            return sum(max(0.0, min(b, t1) - max(a, t0)) for (a, b) in blocked)
        open_now = [s for s in sn.sessions if s.src == me and s.mode == mode and s.t_open <= m['t_sub'] + 1e-9
                    and (s.t_close is None or s.t_close >= m['t_sub'] - 0.02 - stolen(s.t_close, m['t_sub']))]
        if fd:
            cap = 4 if mode == 'bam' else 8
            if len(open_now) < cap:
                viol.add('refused_below_capacity', '%s send_pgn refused at t=%.4f with only %d %s session(s) of SA %02X open on the bus (capacity %d)'
                         % (layer, m['t_sub'], len(open_now), mode, sa, cap), layer=layer, mode=mode)
        else:
            if not [s for s in open_now if s.da == da and s.sa == sa]:
                viol.add('refused_idle_pair', 'send_pgn refused at t=%.4f although no transfer %02X->%02X was in progress'
                         % (m['t_sub'], sa, da), layer=layer, mode=mode)

    # ---- every frame of every stack is well-formed and obeys flow control also under concurrency (independent sniffer) ------
    for (kind, by, msg) in sn.problems:
        viol.add('wire_' + kind, '%s: %s' % (by, msg), layer=layer)

    # ---- cross-check: what the sniffer reassembled equals what was submitted -------------------
    sn_ok = 0
    subm = collections.Counter()
    for m in msgs:
        if m['acc'] is True and len(m['data']) > (60 if fd else 8):
            subm[(addrs[m['src']], bytes(m['data']))] += 1
    for s in sn.sessions:
        if s.status == 'complete':
            p = s.payload()
            if p is not None and subm.get((s.sa, p), 0) > 0:
                subm[(s.sa, p)] -= 1
                sn_ok += 1
    left = sum(subm.values())
    if left and not viol:
        viol.add('recorder_disagrees', '%d accepted multi-packet message(s) were delivered but cannot be reassembled from the bus log' % left, layer=layer)

    sig = (layer, tuple(layouts), tuple(sorted(set(M.len_class(len(m['data']), fd) + ':' + m['mode'] for m in msgs if m['acc'] is True))),
           'zero' if zero else 'lat', tuple(min(w, 4) for w in windows), n_ref > 0)
    multi = sum(1 for m in msgs if m['acc'] is True and len(m['data']) > (60 if fd else 8))
    obs = dict(messages_accepted=n_acc, messages_refused=n_ref, multipacket_accepted=multi, deliveries_compared=compared,
               frames=len(W.bus.frames), eom_notifications=eom_seen[0], tables_observed=tables, sessions_reassembled=sn_ok,
               zero_latency_cases=1 if zero else 0, rx_thread_cases=1 if rxp else 0, slow_sends=sum(s.slow_sends for s in W.stacks), rx_handler_holds=rx_holds[0], eager_switches=sim.eager_switches, chained_submissions=sum(1 for m in msgs if m.get('chain')), jobthread_max_timecalls=max([s.job_state.max_time_calls for s in W.stacks] + [0]))
    sample = dict(case=dict(seed=case['seed'], stacks=n, layouts=layouts, endpoints=[(e['stack'], e['kind'], e['addr']) for e in eps], windows=windows,
                            dt_intervals=dt_ivs, zero=zero, lat=list(lat)),
                  messages=[(m['mode'], len(m['data']), 'ep%d' % m['src'], m['dst'], round(m['t'], 4) if m['t'] is not None else m.get('chain'), m['acc']) for m in msgs[:14]],
                  frames=len(W.bus.frames), deliveries=compared, violations=len(viol))
    res = dict(violations=list(viol), inconclusive=None, sig=repr(sig), nontrivial=multi > 0 and compared > 0, obs=obs, sample=sample)
    res['fingerprint'] = order_fingerprint(W.bus.frames)
    if case.get('trace'):
        res['trace'] = [f.brief() for f in W.bus.frames[:400]]
    W.close()
    return res


def brief(m):
    return '%s len=%d ep%d->%s pf=%02X ps=%02X' % (m['mode'], len(m['data']), m['src'], m['dst'], m['pf'], m['ps'])
