"""C19 -- a second DM14 requester never disturbs or joins a running transaction (fault enumeration)."""
import random

from vt import monitors as M
from vt.bus import ScriptNode
from ref import codec as C
from . import dm14lib as D

PROPERTY = 'C19'
LEVEL = 'fault_enumeration'
RULE = ('shapes = {read, write} x {seed/key off, on} x data length {1, 6, 7 (single frame), 8, 9, 20, 100 bytes (multi packet); more in the thorough tier} x windows {1, 255}; per shape '
        'one un-intruded run fixes the bus frames of the transaction, then after EVERY frame k up to (excluding) the closing operation-completed DM14 an '
        'intruding DM14 is put on the bus (a) from another source address or (b) from the running requester\'s address with another pointer, once or '
        'three times (exhaustive over k); oracle: proceed/notify never see the intruder and are not invoked more often than in the un-intruded run; '
        'every DM15 the server addresses to the intruder has status busy or operation failed and carries no seed, no DM16 goes to it; for (a) '
        'additionally the running transaction returns / hands over the same data as un-intruded, and all state attributes are IDLE at the end; a '
        'case = one (shape, intruder kind, repetitions) with all its k; non-trivial = >= 1 intruded run; distinct = the case')
ASSUMPTIONS = ['the transaction window ends when the server stack has received the closing DM14 (bus order per receiver is preserved, so an intruder '
               'transmitted after the closing DM14 is legitimately a new transaction and is not injected)',
               'the error indicator inside a busy answer is not judged, only status, addressee and absence of data/seed/proceed']
MIN_OBS = {'intruded_runs': {'quick': 2000, 'thorough': 10000}, 'busy_answers_checked': {'quick': 1200, 'thorough': 6000}, 'results_compared': {'quick': 1000, 'thorough': 5000},
           'silent_runs': {'quick': 1, 'thorough': 1}}


def cases(tier, seed):
    out = []
    lens = [1, 6, 7, 8, 9, 20, 100] if tier == 'quick' else [1, 2, 3, 6, 7, 8, 9, 14, 15, 20, 50, 100, 200, 255]
    for kind in ('read', 'write'):
        for sk in (False, True):
            for L in lens:
                for w in ((1, 255) if tier == 'quick' else (1, 2, 5, 255)):
                    for intr in ('other_sa', 'same_sa_other_ptr'):
                        for reps in (1, 3):
                            out.append(dict(kind=kind, seedkey=sk, nbytes=L, w=w, intr=intr, reps=reps, seed=seed * 977 + len(out)))
    # boundary addresses: requester 0x00 (falsy), server 0x00
    for kind in ('read', 'write'):
        for sk in (False, True):
            for L in (1, 20):
                for (ca_, sa_) in ((0x00, D.SRV), (D.CLI, 0x00)):
                    for intr in ('other_sa', 'same_sa_other_ptr'):
                        out.append(dict(kind=kind, seedkey=sk, nbytes=L, w=255, intr=intr, reps=1, cli=ca_, srv=sa_, seed=seed * 977 + len(out)))
    # intruders at special source addresses: the null address 254, the last claimable address 253, address 0
    for kind in ('read', 'write'):
        for sk in (False, True):
            for L in (3, 20):
                for isa in (254, 253, 0x00):
                    out.append(dict(kind=kind, seedkey=sk, nbytes=L, w=255, intr='other_sa', intr_sa=isa, reps=1, seed=seed * 977 + len(out)))
                # the intruder is a second application on the running requester's own ECU
                out.append(dict(kind=kind, seedkey=sk, nbytes=L, w=255, intr='other_sa', local_intruder=True, reps=1, seed=seed * 977 + len(out)))
                # truncated intruding DM14 frames (DLC 7, 6, 4)
                for dlc in (7, 6, 4):
                    out.append(dict(kind=kind, seedkey=sk, nbytes=L, w=255, intr='other_sa', intr_dlc=dlc, reps=1, seed=seed * 977 + len(out)))
    # history: an earlier, normally completed transaction 1.23 .. 1.252 s before the intruded one (0.5 ms steps), and at a few other distances
    gaps = [0.01, 0.3, 0.9] + [1.230 + 0.0005 * i for i in range(45)]
    for gi, g in enumerate(gaps if tier == 'thorough' else gaps[:3] + gaps[3::2]):
        for kind in (('read', 'write') if tier == 'thorough' or gi % 2 == 0 else ('read',)):
            out.append(dict(kind=kind, seedkey=False, nbytes=3, w=255, intr='other_sa', pre_gap=round(g, 4), reps=1, seed=seed * 977 + len(out)))
    return out


class Intruder(ScriptNode):
    def __init__(self, bus, sim, addr=D.INTR):
        super().__init__(bus, 'I')
        self.sim = sim
        self.addr = addr
        self.answers = []
        self.stray = []

    def on_frame(self, fr):
        f = C.split_id(fr.can_id)
        if fr.ext and f['ps'] == self.addr:
            self.answers.append(fr)
        elif fr.ext and fr.src == 'S' and f['pf'] in (C.PF_DM15, C.PF_DM16) and f['ps'] == 255:
            self.stray.append(fr)          # memory-access answers are destination specific: never to the global address


def one_run(case, k, seed):
    DW = D.Dm14World(seed, seedkey=case['seedkey'], windows=(case['w'], case['w']), latency=(0.0002, 0.003), respond_delay=0.004,
                     cli_addr=case.get('cli', D.CLI), srv_addr=case.get('srv', D.SRV))
    I = Intruder(DW.W.bus, DW.sim, case.get('intr_sa', D.INTR))
    rng = random.Random(seed)
    L = case['nbytes']
    ptr = 0x92000003
    op = dict(kind=case['kind'], size=1, count=L, direct=1, pointer=ptr, signed=False, raw=True, via='facade')
    if case['kind'] == 'write':
        op['values'] = [rng.randrange(256) for _ in range(L)]
    if case.get('local_intruder'):
        # the intruding requester is another application (CA) on the running requester's own ECU: the busy answer addressed to it arrives at
        # the same stack and must still not reach the running requester
        DW.W.ca(DW.C, I.addr, identity_number=99)
    if case.get('pre_gap') is not None:
        # history: an earlier transaction of the same requester, normally completed, pre_gap seconds before this one (whatever the earlier
        # one left behind -- a timer, a flag -- must not release or confuse the running one)
        op0 = dict(kind='read', size=1, count=3, direct=1, pointer=0x92000100, signed=False, raw=True, via='facade', gap=case['pre_gap'])

        def begin(dw):
            # the measured transaction starts here: the client task has slept pre_gap seconds since the earlier one returned
            del dw.proceed_calls[:]
            del dw.notify_calls[:]
            del dw.responds[:]
            dw.n_before = len(dw.W.bus.frames)
        op['pre'] = begin
        DW.n_before = None
    else:
        op0 = None
        DW.n_before = len(DW.W.bus.frames)
    injected = []
    armed = []
    if k:
        def hook(fr):
            if fr.src == 'I' or (fr.src == 'X'):
                return
            if DW.n_before is not None and len(DW.W.bus.frames) - DW.n_before == k and not armed:
                armed.append(1)
                sa = I.addr if case['intr'] == 'other_sa' else DW.cli_addr
                p2 = 0x92000003 if case['intr'] == 'other_sa' else 0x91000007
                def shoot():
                    # inside the transaction window only: once the client's closing DM14 is on the bus, a later DM14 arrives after it
                    # (bus order) and is legitimately a new transaction
                    for f in DW.W.bus.frames[DW.n_before:]:
                        if f.src == 'C' and C.split_id(f.can_id)['pf'] == C.PF_DM14 and len(f.data) == 8 and C.parse_dm14(f.data)['command'] == C.DM14_COMPLETED:
                            return
                    injected.append(DW.sim.now)
                    I.send(C.make_id(6, 0, C.PF_DM14, DW.srv_addr, sa), C.dm14(3, 1, C.DM14_READ, p2, 7)[:case.get('intr_dlc', 8)])
                for r in range(case['reps']):
                    # deferred (also r = 0): the hook runs before frame k's own deliveries are scheduled, bus order must put the intruder after it
                    DW.sim.after(r * 0.0007, shoot)
        DW.W.bus.on_frame_hooks.append(hook)
    results = DW.run_ops(([op0] if op0 else []) + [op], gap=0.01, timeout=1, until_extra=4.5)
    if op0:
        results = results[1:]          # the earlier transaction is history, not judged here
    return DW, I, op, results, injected


def run_case(case):
    viol = M.Violations()
    tag = dict(layer='dm14', intr=case['intr'], op=case['kind'], seedkey=case['seedkey'])
    obs = dict(intruded_runs=0, busy_answers_checked=0, results_compared=0, silent_runs=0, fault_points=0)
    DW, I, op, results, _ = one_run(case, 0, case['seed'])
    base_frames = [f for f in DW.W.bus.frames[DW.n_before:]]
    base = results[0] if results else None
    base_ok = base is not None and base['exc'] is None and len(DW.proceed_calls) == 1 and not DW.idle_problems()
    base_proceeds = len(DW.proceed_calls)
    base_notifies = len(DW.notify_calls)
    # index of the closing DM14 (command 'operation completed' from the client)
    closing = None
    for i, f in enumerate(base_frames):
        idf = C.split_id(f.can_id)
        if f.src == 'C' and idf['pf'] == C.PF_DM14 and len(f.data) == 8 and C.parse_dm14(f.data)['command'] == C.DM14_COMPLETED:
            closing = i
    shape = '%s %d bytes seed/key=%s w=%d' % (case['kind'], case['nbytes'], case['seedkey'], case['w'])
    base_trace = [f.brief() for f in base_frames[:14]]
    DW.close()
    if not base_ok or closing is None:
        viol.add('baseline_failed', '%s: the un-intruded transaction failed (%s)' % (shape, base and base['exc']), **tag)
        return dict(violations=list(viol), inconclusive=None, sig=repr(sorted(case.items())), nontrivial=False, obs=obs, sample=dict(case=case, frames=base_trace))
    obs['fault_points'] = closing
    for k in range(1, closing + 1):
        DW, I, op, results, injected = one_run(case, k, case['seed'])
        obs['intruded_runs'] += 1
        what = '%s, intruder (%s x%d) after frame %d (%s)' % (shape, case['intr'], case['reps'], k, base_frames[k - 1].brief()[:40] if k <= len(base_frames) else '?')
        if not injected:
            viol.add('harness', '%s: the intruder was never triggered' % what, **tag)
        M.m_live(viol, DW.W, 'dm14')
        # 1. the application never sees the intruder, and is not asked more often than un-intruded
        for p in DW.proceed_calls:
            if p['sa'] == I.addr or p['address'] == 0x91000007 or p['command'] not in (C.DM14_READ, C.DM14_WRITE):
                viol.add('intruder_served', '%s: proceed was called for the intruder / a non-request (sa %02X, address %#x, command %d)' % (what, p['sa'], p['address'], p['command']), how='proceed', **tag)
        if len(DW.proceed_calls) > base_proceeds or len(DW.notify_calls) > base_notifies:
            viol.add('intruder_served', '%s: proceed ran %d (un-intruded %d), notify %d (%d) times'
                     % (what, len(DW.proceed_calls), base_proceeds, len(DW.notify_calls), base_notifies), how='extra_call', **tag)
        # 2. answers to the intruder: busy / operation failed only
        intr_addr = I.addr if case['intr'] == 'other_sa' else DW.cli_addr
        for f in I.stray:
            viol.add('intruder_answer', '%s: the server sent a memory-access answer to the global address: %s' % (what, f.brief()), how='misaddressed', **tag)
        t_inj = injected[0] if injected else 0
        if case['intr'] == 'other_sa':
            ans = I.answers
            if not ans:
                obs['silent_runs'] += 1
            for f in ans:
                idf = C.split_id(f.can_id)
                if idf['pf'] == C.PF_DM16 or idf['pf'] in (C.PF_TP_CM, C.PF_TP_DT):
                    viol.add('intruder_served', '%s: data sent to the intruder: %s' % (what, f.brief()), how='dm16', **tag)
                elif idf['pf'] == C.PF_DM15 and len(f.data) == 8:
                    m = C.parse_dm15(f.data)
                    obs['busy_answers_checked'] += 1
                    if m['status'] not in (C.DM15_BUSY, C.DM15_FAILED) or m['seed'] != 0xFFFF:
                        viol.add('intruder_answer', '%s: the server answered the intruder with %s (status %d, seed %04X)' % (what, f.brief(), m['status'], m['seed']),
                                 how='seed' if m['seed'] != 0xFFFF else 'status', **tag)
                else:
                    viol.add('intruder_answer', '%s: unexpected frame to the intruder: %s' % (what, f.brief()), how='other', **tag)
            # 3. the running transaction is unchanged
            r = results[0] if results else None
            rsp = DW.responds
            obs['results_compared'] += 1
            if not DW.finished or r is None:
                viol.add('disturbed', '%s: the running client never finished (states %s)' % (what, DW.states()), how='hung', **tag)
            elif r['exc']:
                viol.add('disturbed', '%s: the running transaction failed with %s' % (what, r['exc']), how='failed', **tag)
            elif len(rsp) != 1 or rsp[0]['exc']:
                viol.add('disturbed', '%s: server application respond() ran %d times / raised %s' % (what, len(rsp), rsp[0]['exc'] if rsp else None), how='respond', **tag)
            elif case['kind'] == 'read' and bytes(r['ret']) != rsp[0]['data']:
                viol.add('disturbed', '%s: read returned %s, supplied %s' % (what, bytes(r['ret']).hex()[:40], rsp[0]['data'].hex()[:40]), how='data', **tag)
            elif case['kind'] == 'write' and rsp[0]['ret'] != D.encode_values(op['values'], 1):
                viol.add('disturbed', '%s: server was handed %r' % (what, rsp[0]['ret']), how='data', **tag)
            idle = DW.idle_problems()
            if idle and DW.finished:
                viol.add('disturbed', '%s: not idle afterwards: %s' % (what, ', '.join(idle)), how='not_idle', **tag)
        else:
            # answers go to the running client's address: every DM15 sent by the server after the injection that does not belong to the
            # running transaction's own sequence is judged by status only; data must never be served for the intruder's pointer
            for f in DW.W.bus.frames:
                idf = C.split_id(f.can_id)
                if f.src == 'S' and f.t >= t_inj and idf['pf'] == C.PF_DM15 and len(f.data) == 8:
                    m = C.parse_dm15(f.data)
                    if m['status'] in (C.DM15_BUSY, C.DM15_FAILED):
                        obs['busy_answers_checked'] += 1
            # the busy reply may legitimately end the running transaction (it reaches the running client) -- but whatever IS completed is the
            # running transaction's own data, never the intruding frame taken for it
            r = results[0] if results else None
            for s_ in DW.responds:
                if case['kind'] == 'write' and s_['ret'] is not None and not s_['exc'] and s_['ret'] != bytes(op['values']):
                    viol.add('intruder_served', '%s: the serving application was handed %s as the written data, the client wrote %s'
                             % (what, s_['ret'].hex() if isinstance(s_['ret'], bytes) else repr(s_['ret']), bytes(op['values']).hex()), how='taken_for_data', **tag)
            if r is not None and not r['exc'] and case['kind'] == 'read' and DW.responds and DW.responds[0]['data'] is not None \
                    and r['ret'] and bytes(r['ret']) != DW.responds[0]['data']:
                viol.add('intruder_served', '%s: the read returned %s, the serving application supplied %s' % (what, bytes(r['ret']).hex()[:40], DW.responds[0]['data'].hex()[:40]),
                         how='wrong_read_data', **tag)
        DW.close()
    sample = dict(case=case, fault_points=closing, baseline=base_trace)
    return dict(violations=list(viol), inconclusive=None, sig=repr(sorted(case.items())), nontrivial=obs['intruded_runs'] > 0, obs=obs, sample=sample)


def coverage(results, tier):
    return dict(exhaustive=True, explanation='exhaustive over the injection position k (after every bus frame of the transaction before the closing DM14) for every listed shape')
