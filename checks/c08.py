"""C08 -- transfer outcome does not depend on where reception pre-empts the job thread."""
import os
import sys
import random

from vt.world import World, REPO
from vt import monitors as M
from vt import engine

PROPERTY = 'C08'
LEVEL = 'exploration'
RULE = ('shapes = {RTS/CTS traced on the originator, RTS/CTS traced on the responder, BAM traced on either side} x {J1939-21, J1939-22} x windows '
        '{1,2,all} x latency profiles {<=1 ms, <=5 ms}, plus failing transfers against a scripted peer (abort on RTS / after the first data packet, CTS then silence, inbound session abandoned / aborted / half sent) traced on the real stack; one baseline run per shape counts the N source-line events the traced job thread executes '
        'in repository code during the transfer; then EVERY k in 1..N: the thread is parked at its k-th line for a hold in {0.2, 1, 5 ms} of virtual '
        'time while frame reception on the same stack goes on (exhaustive for one pre-emption); plus sampled runs with two pre-emptions (same or '
        'both job threads), shapes in which the application submits the next message to the same peer exactly while the job thread is held (every line in turn), DEADLINE RACES (checks/races.py: against a scripted peer that delays exactly the awaited frame -- first CTS, second CTS, CTS after a hold, end-of-message acknowledge, first / next data packet of an inbound session, first packet of a broadcast -- until the session\'s time-out T1/T2/T3/T5/Th is due within -4..+0.5 ms, with both threads of the stack pre-empted at every ~8th source line around that instant; either side may win: threads alive, tables empty, pools full, payload exact or nothing, and the next transfer on the same pair completes), the CONVERSE for the main shapes (frames are handled by a controlled receive thread of their own, which is suspended at EVERY source line of its handlers in turn for 0.2..60 ms while the job thread of the same stack is made to run passes -- an unrelated one-shot timer is added at the hold), and, in the thorough tier, EVERY pair of pre-emption points of one thread for the smallest connection-mode shapes; oracle = same outcome as the baseline: payload delivered intact exactly once, tables empty/pools full 8 s later, job '
        'threads alive and parked; a case = one (shape, hold) with all its k; non-trivial = the hold overlapped a frame reception at least once; '
        'distinct = shape x hold')
ASSUMPTIONS = ['pre-emption granularity is the source line (sys.settrace line events in the job thread, or in the receive thread for the converse shapes); in the job-thread shapes frame handlers run to completion',
               'the k-th line event is counted from the submission of the transfer']
MIN_OBS = {'races': {'quick': 80, 'thorough': 800}, 'race_holds': {'quick': 400, 'thorough': 4000}, 'race_completed': {'quick': 10, 'thorough': 100}, 'race_timed_out': {'quick': 10, 'thorough': 100},
           'resubmissions_accepted': {'quick': 400, 'thorough': 1200}, 'preempted_runs': {'quick': 4000, 'thorough': 60000}, 'rx_preempted_runs': {'quick': 5000, 'thorough': 20000}, 'distinct_lines_max': 1, 'holds_overlapping_reception': {'quick': 500, 'thorough': 8000}}

J_DIR = os.path.realpath(os.path.join(REPO, 'j1939')) + os.sep


def cases(tier, seed):
    out = []
    rng = random.Random(8000 + seed)
    for layer in ('j1939-21', 'j1939-22'):
        for mode, role in (('cmdt', 'orig'), ('cmdt', 'resp'), ('bam', 'orig'), ('bam', 'resp')):
            for w in ((1, 2, 255) if mode == 'cmdt' else (1,)):
                for lat in ((0.0001, 0.001), (0.0002, 0.005)):
                    holds = (0.0002, 0.001, 0.005)
                    if tier == 'quick':
                        holds = (0.0002, 0.005) if lat[1] < 0.002 else (0.001,)
                    for hold in holds:
                        unit = 60 if layer == 'j1939-22' else 7
                        pk = 4 if tier == 'quick' else rng.choice([3, 4, 6])
                        if mode == 'bam':
                            pk = 3
                        out.append(dict(kind='exhaustive', layer=layer, mode=mode, role=role, w=w, lat=lat, hold=hold,
                                        size=unit * pk - 2, seed=seed * 131 + len(out)))
    # two connection-mode transfers at once from one stack to two different peers (the pass over the sessions serves one while reception
    # completes the other)
    for layer in ('j1939-21', 'j1939-22'):
        unit = 60 if layer == 'j1939-22' else 7
        for w in (1, 255):
            for hold in ((0.001,) if tier == 'quick' else (0.0002, 0.001, 0.005)):
                out.append(dict(kind='exhaustive', layer=layer, mode='cmdt2', role='orig', w=w, lat=(0.0001, 0.001), hold=hold, size=unit * 3 - 2,
                                seed=seed * 131 + len(out)))
    # block-wise download: B answers block 1 with a short "next block" command, A's subscriber answers that with block 2 (a new transfer to
    # the same peer submitted from inside a receive callback while A's job thread may be cleaning up the first session)
    for layer in ('j1939-21', 'j1939-22'):
        unit = 60 if layer == 'j1939-22' else 7
        for w in (1, 255):
            for hold in ((0.001, 0.005) if tier == 'quick' else (0.0002, 0.001, 0.005)):
                for cd in ((0.0005,) if tier == 'quick' else (0.0, 0.0003, 0.001)):
                    out.append(dict(kind='exhaustive', layer=layer, mode='cmdt_chain', role='orig', w=w, lat=(0.0001, 0.001), hold=hold, size=unit * 2 - 2,
                                    cmd_delay=cd, seed=seed * 131 + len(out)))
    # connection-mode transfers with a configured minimum DT interval (the burst loop leaves after every packet: another code path)
    for layer in ('j1939-21', 'j1939-22'):
        unit = 60 if layer == 'j1939-22' else 7
        for role in ('orig', 'resp'):
            for w in (2, 255):
                out.append(dict(kind='exhaustive', layer=layer, mode='cmdt', role=role, w=w, lat=(0.0001, 0.001), hold=0.001 if tier == 'quick' else 0.005,
                                size=unit * 4 - 2, dt_interval=0.002, seed=seed * 131 + len(out)))
    # failing transfers against a scripted peer (abort / silence / abandoned inbound session): the baseline outcome is 'not delivered,
    # everything released'; pre-emption must not change it, and in particular must not kill the job thread on the abort / time-out paths
    for layer in ('j1939-21', 'j1939-22'):
        unit = 60 if layer == 'j1939-22' else 7
        for mode in ('x_abort_after_dt', 'x_abort_on_rts', 'x_cts_then_silent', 'x_abort_at_t3', 'x_in_abandon', 'x_in_abort', 'x_in_half'):
            for hold in (((0.005,) if mode == 'x_abort_at_t3' else (0.001,)) if tier == 'quick' else (0.0002, 0.001, 0.005)):
                out.append(dict(kind='exhaustive', layer=layer, mode=mode, role='orig', w=2, lat=(0.0001, 0.001), hold=hold, size=unit * 4 - 2,
                                seed=seed * 131 + len(out)))
    # the application submits the next message to the same peer exactly while the job thread is held (every line in turn): the new session must
    # not be confused with the one the job thread is just finishing, timing out or cleaning up
    for layer in ('j1939-21', 'j1939-22'):
        unit = 60 if layer == 'j1939-22' else 7
        for mode in ('cmdt', 'bam', 'x_cts_then_silent', 'x_abort_at_t3', 'x_abort_after_dt', 'x_abort_on_rts'):
            for hold in ((0.001,) if tier == 'quick' else (0.0002, 0.001, 0.005)):
                out.append(dict(kind='exhaustive', resubmit=True, layer=layer, mode=mode, role='orig', w=255 if mode in ('cmdt', 'bam') else 2, lat=(0.0001, 0.001), hold=hold,
                                size=unit * 3 - 2, seed=seed * 131 + len(out)))
    # the converse: the RECEIVE thread is suspended at every source line of its frame handlers in turn while the job thread (and the rest of the
    # system) keeps running -- the other way round of "wherever the OS suspends the background thread relative to the thread that feeds frames in"
    for layer in ('j1939-21', 'j1939-22'):
        unit = 60 if layer == 'j1939-22' else 7
        for mode, role in (('cmdt', 'orig'), ('cmdt', 'resp'), ('bam', 'resp'), ('cmdt2', 'orig'), ('cmdt_chain', 'orig')):
            for w in ((1, 255) if mode != 'bam' else (1,)):
                for hold in ((0.001, 0.06) if tier == 'quick' else (0.0002, 0.001, 0.005, 0.06)):
                    out.append(dict(kind='exhaustive', thread='rx', layer=layer, mode=mode, role=role, w=w, lat=(0.0001, 0.001), hold=hold,
                                    size=unit * (3 if mode != 'cmdt_chain' else 2) - 2, seed=seed * 131 + len(out)))
        for mode in ('x_abort_after_dt', 'x_cts_then_silent', 'x_in_abort', 'x_in_half'):
            out.append(dict(kind='exhaustive', thread='rx', layer=layer, mode=mode, role='orig', w=2, lat=(0.0001, 0.001), hold=0.001 if tier == 'quick' else 0.005,
                            size=unit * 4 - 2, seed=seed * 131 + len(out)))
    if tier == 'thorough':
        # every PAIR of pre-emption points (same thread) for the smallest shapes, split into slices of the first point
        for layer in ('j1939-21', 'j1939-22'):
            unit = 60 if layer == 'j1939-22' else 7
            for role in ('orig', 'resp'):
                for sl in range(8):
                    out.append(dict(kind='pairs', layer=layer, mode='cmdt', role=role, w=1, lat=(0.0001, 0.001), hold=0.001, size=unit * 2 - 2,
                                    slice=sl, slices=8, seed=seed * 131 + 7))
    # deadline races: the awaited frame arrives when the session's time-out expires, both threads pre-empted densely around that instant
    from checks import races
    out.extend(races.cases(tier, seed))
    nd = 150 if tier == 'quick' else 3000
    for i in range(nd):
        layer = rng.choice(['j1939-21', 'j1939-22'])
        unit = 60 if layer == 'j1939-22' else 7
        out.append(dict(kind='double', layer=layer, mode=rng.choice(['cmdt', 'cmdt', 'bam']), w=rng.choice([1, 2, 255]),
                        lat=rng.choice([(0.0001, 0.001), (0.0002, 0.005)]), size=unit * rng.randint(2, 6) - rng.randint(0, 5),
                        seed=rng.randrange(1 << 30), n=12 if tier == 'quick' else 24))
    return out


def one_run(case, plan, seed):
    """plan: {node name: [(k, hold), ...]} -> observation"""
    layer, mode, w, lat, size = case['layer'], case['mode'], case['w'], case['lat'], case['size']
    W = World(seed, layer, tuple(lat))
    sim = W.sim
    counters = {}
    info = dict(lines={}, overlap=0, where=[])

    resub = {}
    holding = [0]
    inv_viol = M.Violations()
    inv_count = [0]

    def do_resubmit():
        dest = RA_ if mode.startswith('x_') else 0x20
        if mode == 'bam':
            rec = W.call('resubmit', ca.send_pgn, 0, 0xFE, 0xF7, 6, list(pay2r))          # the next broadcast (another PGN)
        else:
            rec = W.call('resubmit', ca.send_pgn, 0, 0xD0, dest, 6, list(pay2r))
        resub['ret'] = rec['ret']
        resub['exc'] = rec['exc']
    rx = case.get('thread') == 'rx'        # pre-empt the receive thread (frame handler suspended, job thread runs) instead of the job thread
    nodes = {}

    def mk_tracer(name):
        st = dict(n=0, on=False, plan=sorted(plan.get(name, [])), lines=set())
        counters[name] = st

        def local(frame, event, arg):
            if event == 'line' and st['on']:
                st['n'] += 1
                st['lines'].add((frame.f_code.co_filename.rsplit('/', 1)[-1], frame.f_lineno))
                if st['plan'] and st['n'] == st['plan'][0][0]:
                    k, hold = st['plan'].pop(0)
                    loc = '%s:%d' % (frame.f_code.co_filename.rsplit('/', 1)[-1], frame.f_lineno)
                    n0 = len(W.bus.delivered)
                    t0 = sim.now
                    js = nodes[name].job_state if rx and name in nodes else None
                    w0 = len(js.waits) if js is not None else 0
                    if case.get('resubmit') and not resub:
                        # the application submits its next message to the same peer while the thread is held at this very line
                        resub['t'] = sim.now + hold / 2
                        sim.after(hold / 2, do_resubmit)
                    if rx and name in nodes:
                        # make sure the job thread of this stack makes passes while the handler is suspended (on its own it sleeps until the
                        # next deadline it knows of): an unrelated one-shot application timer, added now, due in the middle of the hold
                        nodes[name].ecu.add_timer(hold / 2, lambda cookie: False)
                    holding[0] += 1
                    try:
                        sim.block_current(until=sim.now + hold, waitobj=engine.HOLD, jitter=False)
                    finally:
                        holding[0] -= 1
                    if rx:
                        # non-trivial = the job thread of the same stack ran (finished at least one pass) while the handler was suspended
                        got = (len(js.waits) - w0) if js is not None else 0
                    else:
                        got = sum(1 for (t, nm, idx) in W.bus.delivered[n0:] if nm == name)
                    info['where'].append((name, k, loc, got))
                    if got:
                        info['overlap'] += 1
            return local

        def tracer(frame, event, arg):
            if event != 'call':
                return None
            fn = frame.f_code.co_filename
            if not fn.startswith(J_DIR):
                return None
            return local
        return tracer

    kw = dict(max_cmdt_packets=w)
    if case.get('dt_interval') is not None:
        kw['minimum_tp_rts_cts_dt_interval'] = case['dt_interval']
    if rx:
        A = W.stack('A', rx_thread=True, rx_trace=mk_tracer('A'), **kw)
    else:
        sim.trace_hook = mk_tracer('A')
        A = W.stack('A', **kw)
    nodes['A'] = A
    if layer == 'j1939-22':
        # J1939-22: after every entry into the data link layer the session numbers in use are exactly those of the stack's own live send
        # sessions (not evaluated while the traced thread is parked in the middle of its bookkeeping)
        from checks.c10 import install_pool_invariant
        install_pool_invariant(A, inv_viol, inv_count, layer, holding)
    rng = random.Random(seed)
    pay = [rng.randrange(256) for _ in range(size)]
    ca = W.ca(A, 0x10, identity_number=1)
    W.listen_ca(ca, 'A')
    pay2r = [x ^ 0x3C for x in pay] + [1, 2, 3]          # the re-submission is three bytes longer than the first message
    from checks.c10 import RA as RA_
    R = None
    if mode.startswith('x_'):
        from checks.c10 import Peer, RA
        sim.trace_hook = None
        counters['B'] = dict(n=0, on=False, plan=[], lines=set())
        R = Peer(W.bus, sim, rng, layer == 'j1939-22')
        W.run(0.01)

        def go():
            for st in counters.values():
                st['on'] = True
            if mode.startswith('x_in_'):
                R.start(0x10, 1, list(pay), 0xD000, mode[5:])
                W.calls.append(dict(ret=True, exc=None))
            else:
                R.plan.append(mode[2:])
                W.call('send', ca.send_pgn, 0, 0xD0, RA, 6, list(pay))
    else:
        if rx:
            B = W.stack('B', rx_thread=True, rx_trace=mk_tracer('B'), **kw)
        else:
            sim.trace_hook = mk_tracer('B')
            B = W.stack('B', **kw)
        sim.trace_hook = None
        nodes['B'] = B
        cb = W.ca(B, 0x20, identity_number=2)
        W.listen_ca(cb, 'B')
        if mode == 'cmdt2':
            cb2 = W.ca(B, 0x21, identity_number=3)
            W.listen_ca(cb2, 'B2')
        if mode == 'cmdt_chain':
            pay2 = [x ^ 0xA5 for x in pay]
            chain = dict(cmd=0, blk2=None)

            def on_b(priority, pgn, sa, timestamp, data):
                if bytes(data) == bytes(pay) and not chain['cmd']:
                    chain['cmd'] = 1
                    # the application asks for the next block a moment later (after the stack has acknowledged block 1)
                    sim.after(case.get('cmd_delay', 0.0005), lambda: cb.send_pgn(0, 0xD1, 0x10, 6, [0x4E, 0x58, 0x54]))      # "next block"

            def on_a(priority, pgn, sa, timestamp, data):
                if bytes(data) == bytes([0x4E, 0x58, 0x54]) and chain['blk2'] is None:
                    chain['blk2'] = ca.send_pgn(0, 0xD0, 0x20, 6, list(pay2))
            cb.subscribe(on_b)
            ca.subscribe(on_a)
        W.run(0.01)
        args = (0, 0xD0, 0x20, 6, list(pay)) if mode.startswith('cmdt') else (0, 0xFE, 0xF6, 6, list(pay))

        def go():
            for st in counters.values():
                st['on'] = True
            W.call('send', ca.send_pgn, *args)
            if mode == 'cmdt2':
                W.call('send2', ca.send_pgn, 0, 0xD0, 0x21, 6, list(pay))
    sim.at(0.02, go)
    W.run(0.02 + 8.0)
    exp_pgn = 0xD000 if mode.startswith('cmdt') else 0xFEF6
    exact = [d for d in W.deliv['B'] if d[4] == bytes(pay) and M.norm_pgn(d[2]) == exp_pgn and d[3] == 0x10]
    other = [d for d in W.deliv['B'] if d not in exact]
    if mode == 'cmdt_chain':
        ex2 = [d for d in W.deliv['B'] if d[4] == bytes(pay2) and d[3] == 0x10]
        other = [d for d in other if d not in ex2]
        # block 2: if send_pgn accepted it (True) it must be delivered exactly once; a refusal (False: the pair / pool is still busy because the
        # clean-up of block 1 was delayed by the pre-emption) is a legal answer and then nothing may arrive
        want2 = 1 if chain['blk2'] is True else 0
        if len(ex2) != want2:
            exact = exact[:0] if len(ex2) < want2 else exact + ex2
    if mode == 'cmdt2':
        ex2 = [d for d in W.deliv['B2'] if d[4] == bytes(pay) and M.norm_pgn(d[2]) == exp_pgn and d[3] == 0x10]
        other += [d for d in W.deliv['B2'] if d not in ex2]
        if len(ex2) != 1:
            exact = exact[:0] if len(ex2) == 0 else exact + ex2        # make the count wrong so that judge() reports it
    if case.get('resubmit'):
        # the re-submission: delivered exactly once if send_pgn accepted it, not at all otherwise
        if R is not None:
            n2 = sum(1 for c in R.completed if c[0] == 0x10 and c[2] == len(pay2r))
        else:
            ex2r = [d for d in W.deliv['B'] if d[4] == bytes(pay2r) and d[3] == 0x10]
            other = [d for d in other if d not in ex2r]
            n2 = len(ex2r)
        resub['delivered'] = n2
    res = dict(inv_viol=list(inv_viol), inv_count=inv_count[0], resub=resub, W=W, exact=len(exact), other=other, n={k: v['n'] for k, v in counters.items()}, lines={k: v['lines'] for k, v in counters.items()},
               info=info, ret=W.calls[0] if W.calls else None)
    return res


def judge(case, r, viol, what, obs):
    layer = case['layer']
    W = r['W']
    tag = dict(layer=layer, mode=case['mode'])
    locs = ','.join('%s@%s' % (a, c) for (a, b, c, d) in r['info']['where'])
    fn = ''
    for p in W.liveness_problems():
        viol.add(p['kind'], '%s: %s %s at %s (pre-empted at %s)' % (what, p['thread'], p['exc'], p['where'], locs), where=p['where'],
                 exc=p['exc'].split('(')[0], **tag)
    if r['ret'] is None or r['ret'].get('ret') is not True:
        viol.add('send_refused', '%s: send_pgn returned %r' % (what, r['ret']), **tag)
    want = 0 if case['mode'].startswith('x_') else 1
    if r['exact'] != want:
        viol.add('lost_or_duplicated', '%s: payload delivered %d times, %d expected (pre-empted at %s)' % (what, r['exact'], want, locs),
                 how='lost' if r['exact'] < want else 'dup', role=case.get('role', 'both'), **tag)
    for v in r.get('inv_viol') or []:
        viol.add(v['kind'], '%s: %s (pre-empted at %s)' % (what, v['msg'], locs), **dict({k_: v_ for k_, v_ in v['sig'].items() if k_ != 'kind'}, mode=case['mode']))
    obs['pool_invariant_checks'] = obs.get('pool_invariant_checks', 0) + (r.get('inv_count') or 0)
    rs = r.get('resub') or {}
    if 'ret' in rs:
        obs['resubmissions'] = obs.get('resubmissions', 0) + 1
        if rs.get('exc'):
            viol.add('resubmit_raised', '%s: send_pgn for the next message (submitted during the hold at %s) raised %s' % (what, locs, rs['exc']), **tag)
        elif rs['ret'] is True:
            obs['resubmissions_accepted'] = obs.get('resubmissions_accepted', 0) + 1
            # (a connection abort of the scripted peer that reaches the stack after the re-submission legitimately ends the new session too:
            #  J1939-21/-22 aborts name the pair / session number, and the new session re-uses them)
            from checks.c06 import is_abort as _ia
            late_abort = any(nm == 'A' and t >= rs['t'] and W.bus.frames[idx].src == 'R' and _ia(W.bus.frames[idx], layer == 'j1939-22')
                             for (t, nm, idx) in W.bus.delivered)
            if rs.get('delivered') != 1 and not (late_abort and not rs.get('delivered')):
                viol.add('resubmit_lost', '%s: the next message to the same peer, accepted by send_pgn during the hold at %s, was delivered %d times' % (what, locs, rs.get('delivered', -1)),
                         how='lost' if not rs.get('delivered') else 'dup', **tag)
        elif rs.get('delivered'):
            viol.add('resubmit_lost', '%s: the next message was refused by send_pgn but delivered %d times' % (what, rs['delivered']), how='refused_but_delivered', **tag)
    for d in r['other']:
        viol.add('corrupt_delivery', '%s: receiver got len=%d pgn=%05X (pre-empted at %s)' % (what, len(d[4]), d[2], locs), **tag)
    for d in ([] if case['mode'].startswith('x_in_') else W.deliv['A']):
        fd = layer == 'j1939-22'
        okk = d[3] in (0x20, 0x21, 0x30) and len(W.deliv['A']) <= {'cmdt2': 2, 'cmdt_chain': 3}.get(case['mode'], 1) + (1 if case.get('resubmit') else 0)      # end-of-message notification(s) (+ the command), form not judged
        if not okk:
            viol.add('unexpected_delivery', '%s: originator listener got len=%d' % (what, len(d[4])), **tag)
    # a transfer that completes cleanly un-pre-empted must not end with a connection abort from either side under pre-emption
    if not case['mode'].startswith('x_'):
        from checks.c06 import is_abort
        ab = [f for f in W.bus.frames if is_abort(f, layer == 'j1939-22')]
        if ab:
            viol.add('spurious_abort', '%s: connection abort on the bus for a transfer that was delivered (%s; pre-empted at %s)' % (what, ab[0].brief(), locs),
                     role=case.get('role', 'both'), **tag)
    # the frames the stacks put on the bus are conforming J1939-21 / -22 whatever the interleaving was (independent sniffer)
    from ref import sniffer as SN
    sn = SN.sniff(layer, W.bus.frames)
    for (pk, by, msg) in sn.problems:
        # (only for transfers between two stacks: against the scripted peer that aborts, a packet already on its way when the abort arrives is legitimate)
        if by in ('A', 'B') and not case['mode'].startswith('x_'):
            viol.add('wire_' + pk, '%s: %s (pre-empted at %s)' % (what, msg, locs), **tag)
    M.m_quiet(viol, W, layer, what='8 s after the transfer (%s, pre-empted at %s)' % (what, locs))
    M.m_live(viol, W, layer)


def run_case(case):
    if case['kind'] == 'deadline_race':
        from checks import races
        r = races.run_case(case)
        for k in ('resubmissions', 'resubmissions_accepted', 'preempted_runs', 'rx_preempted_runs', 'holds_overlapping_reception', 'distinct_lines_max', 'line_events_baseline'):
            r['obs'].setdefault(k, 0)
        return r
    viol = M.Violations()
    obs = dict(pool_invariant_checks=0, races=0, race_holds=0, race_completed=0, race_timed_out=0, race_followups=0, resubmissions=0, resubmissions_accepted=0, preempted_runs=0, rx_preempted_runs=0, holds_overlapping_reception=0, distinct_lines_max=0, line_events_baseline=0)
    base = one_run(case, {}, case['seed'])
    judge(case, base, viol, 'baseline', obs)
    nA, nB = base['n']['A'], base['n']['B']
    lines = set(base['lines']['A']) | set(base['lines']['B'])
    base['W'].close()
    if viol:
        return dict(violations=list(viol), inconclusive=None, sig=repr(('base', case['layer'], case['mode'])), nontrivial=False, obs=obs, sample=None)
    points = []
    if case['kind'] == 'exhaustive':
        node = 'A' if case['role'] == 'orig' else 'B'
        N = base['n'][node]
        obs['line_events_baseline'] = N
        for k in range(1, N + 1):
            r = one_run(case, {node: [(k, case['hold'])]}, case['seed'])
            obs['preempted_runs'] += 1
            obs['holds_overlapping_reception'] += r['info']['overlap']
            judge(case, r, viol, '%s %s traced=%s%s w=%d hold=%.4f k=%d' % (case['layer'], case['mode'], node, ' (receive thread)' if case.get('thread') == 'rx' else '', case['w'], case['hold'], k), obs)
            if case.get('thread') == 'rx':
                obs['rx_preempted_runs'] = obs.get('rx_preempted_runs', 0) + 1
            for w in r['info']['where']:
                points.append(w[2])
            r['W'].close()
        sig = repr((case.get('thread', 'job'), bool(case.get('resubmit')), case['layer'], case['mode'], case['role'], case['w'], tuple(case['lat']), case['hold']))
    elif case['kind'] == 'pairs':
        node = 'A' if case['role'] == 'orig' else 'B'
        N = base['n'][node]
        obs['line_events_baseline'] = N
        for k1 in range(1 + case['slice'], N + 1, case['slices']):
            for k2 in range(k1 + 1, N + 1):
                r = one_run(case, {node: [(k1, case['hold']), (k2, case['hold'])]}, case['seed'])
                obs['preempted_runs'] += 1
                obs['holds_overlapping_reception'] += r['info']['overlap']
                judge(case, r, viol, '%s %s traced=%s pair k=(%d,%d)' % (case['layer'], case['mode'], node, k1, k2), obs)
                for w in r['info']['where']:
                    points.append(w[2])
                r['W'].close()
        sig = repr(('pairs', case['layer'], case['role'], case['slice']))
    else:
        rng = random.Random(case['seed'])
        for i in range(case['n']):
            plan = {}
            for j in range(2):
                node = rng.choice(['A', 'B'])
                N = base['n'][node]
                if N:
                    plan.setdefault(node, []).append((rng.randint(1, N), rng.choice([0.0002, 0.001, 0.005])))
            r = one_run(case, plan, case['seed'])
            obs['preempted_runs'] += 1
            obs['holds_overlapping_reception'] += r['info']['overlap']
            judge(case, r, viol, '%s %s double %s' % (case['layer'], case['mode'], plan), obs)
            for w in r['info']['where']:
                points.append(w[2])
            r['W'].close()
        sig = repr(('double', case['layer'], case['mode'], case['w'], case['size']))
    obs['distinct_lines_max'] = len(set(points))
    sample = dict(case=case, baseline_line_events=dict(A=nA, B=nB), distinct_preemption_lines=len(set(points)),
                  some_points=sorted(set(points))[:12])
    return dict(violations=list(viol), inconclusive=None, sig=sig, nontrivial=obs['holds_overlapping_reception'] > 0, obs=obs, sample=sample)


def coverage(results, tier):
    pts = set()
    for r in results:
        s = r.get('sample')
        if s:
            pts.update(s.get('some_points', []))
    return dict(exhaustive=True, explanation='exhaustive over the pre-emption position k (one pre-emption) for every listed shape; double pre-emptions sampled',
                sample_preemption_points=sorted(pts)[:40])
