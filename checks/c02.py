"""C02 -- J1939-22 (FD) transport delivers every accepted message intact, exactly once; capacity limit."""
import random
from . import tpcommon

PROPERTY = 'C02'
LEVEL = 'exploration'
RULE = ('cases = seeded random 2-3-stack J1939-22 scenarios (1-12 messages of 61..3000 bytes incl. all residues mod 60 and the boundary set, '
        'occasional 15300/20000-byte transfers, RTS/CTS and BAM in one or both directions, windows 1..255 per stack, latencies in (0,5ms]) '
        'plus capacity cases that submit 9..16 transfers from one stack at one instant (calls beyond 8 RTS/CTS + 4 BAM must return False, emit '
        'nothing and leave the rest intact); non-trivial = >=1 accepted transport message compared at a listener; distinct = (stacks, '
        'set of (length class, mode), window classes, refusal seen)')
ASSUMPTIONS = ['replies are processed after the handler that caused them has finished (no zero-latency re-entrancy on J1939-22, as the property states)',
               'protocol PGNs are not used as application PGNs', 'PGN compared with PS cleared for PDU1']
MIN_OBS = {'multipacket_accepted': {'quick': 3000, 'thorough': 30000}, 'deliveries_compared': {'quick': 10000, 'thorough': 100000},
           'messages_refused': 120, 'eom_notifications': 400,
           'rx_thread_cases': {'quick': 80, 'thorough': 800}, 'rx_handler_holds': {'quick': 1500, 'thorough': 15000}}


def cases(tier, seed):
    rng = random.Random(2000 + seed)
    out = []
    n = 1000 if tier == 'quick' else 10000
    for i in range(n):
        out.append(dict(kind='random', seed=rng.randrange(1 << 30)))
    for i in range(120 if tier == 'quick' else 1200):
        out.append(dict(kind='capacity', seed=rng.randrange(1 << 30), count=rng.randint(0, 3), capacity=rng.randint(9, 16)))
    big = [15300, 20000] if tier == 'quick' else [15300, 19999, 20000, 12345]
    for L in big:
        for mode in ('p2p', 'bam2'):
            out.append(dict(kind='big', seed=rng.randrange(1 << 30), n=2, sequential=[(mode, L)]))
    # residues mod 60, sequential sweep
    res = list(range(61, 61 + 120)) if tier == 'quick' else list(range(61, 61 + 600))
    for mode in ('p2p', 'bam2'):
        for lo in range(0, len(res), 30):
            out.append(dict(kind='sweep', seed=rng.randrange(1 << 30), n=2, sequential=[(mode, L) for L in res[lo:lo + 30]]))
    return out


def run_case(case):
    return tpcommon.run_scenario(case, 'j1939-22')


def coverage(results, tier):
    return dict(explanation='each case is one execution of real J1939-22 ECUs on the virtual-time bus; oracle M-DELIV/M-CAP/M-QUIET/M-LIVE')
