#!/venv/bin/python
"""CLI:  run.py C07 [--tier quick|thorough] [--replay file]   (see DESIGN.md section 7)"""
import os
import sys

HERE = os.path.dirname(os.path.abspath(__file__))
sys.path.insert(0, HERE)

if __name__ == '__main__':
    if len(sys.argv) >= 2 and sys.argv[1] == '--worker':
        from vt import runner
        runner.worker_main(sys.argv[2], sys.argv[3], sys.argv[4])
        sys.exit(0)
    if len(sys.argv) >= 2 and sys.argv[1] == '--replay-worker':
        from vt import runner
        sys.exit(runner.replay_worker(sys.argv[2], sys.argv[3]))
    from vt import runner
    sys.exit(runner.main(sys.argv[1:]))
