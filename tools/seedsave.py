#!/usr/bin/env python3
"""tools/seedsave.py <src dir> <id> <property> "<what it needs to manifest>" CHECK [CHECK...]
Confirms the seeded defect again (suite passes with it, demo fails with it / passes without), runs the named checks on it,
and stores patch.diff, demo.py, notes.md and meta.json under /verif/seeded/<id>/."""
import os, sys, json, shutil, subprocess
src, sid, prop, needs = sys.argv[1:5]
checks = sys.argv[5:]
dst = os.path.join('/verif/seeded', sid)
os.makedirs(dst, exist_ok=True)
for f in ('patch.diff', 'demo.py', 'notes.md'):
    if os.path.exists(os.path.join(src, f)):
        shutil.copy(os.path.join(src, f), dst)
r = subprocess.run([sys.executable, '/verif/tools/seedtest.py', dst, '--confirm'] + checks, capture_output=True, text=True)
try:
    res = json.loads(r.stdout)
except ValueError:
    res = dict(error=r.stdout[-500:] + r.stderr[-500:])
meta = dict(id=sid, breaks_property=prop, needs_to_manifest=needs, origin='independent sub-agent given only the property text and a scratch worktree',
            confirmed=dict(pinned_suite_with_change=res.get('pytest'), demo_exit_without_change=res.get('demo_without'), demo_exit_with_change=res.get('demo_with'),
                           patch_applies_to_repo_head=res.get('applies')),
            ran=['tools/seedtest.py %s --confirm %s' % (dst, ' '.join(checks))],
            checks={k: dict(exit=v['rc'], violation_kinds=v['kinds']) for k, v in res.get('checks', {}).items()},
            caught_by=[k for k, v in res.get('checks', {}).items() if v['rc'] == 1])
json.dump(meta, open(os.path.join(dst, 'meta.json'), 'w'), indent=1)
print(sid, meta['confirmed'], meta['caught_by'])
