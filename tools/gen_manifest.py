#!/usr/bin/env python3
"""regenerates /verif/MANIFEST.json from the table below (keeps the interface file consistent with the checks)"""
import json, os, sys
HERE = os.path.dirname(os.path.dirname(os.path.abspath(__file__)))
sys.path.insert(0, HERE)

P = {
 'C01': ('exploration', '5 C01', 'Real J1939-21 ECUs (2-4 per case) run on a virtual-time bus; an oracle over the recorded deliveries, send_pgn results, bus log and session tables '
         'decides every case (multiset equality per listener, permitted EndOfMsgACK notification only, refusal justified by the bus log, tables empty, threads alive). '
         'Reach comes from seeded workloads over lengths/PGNs/windows/latency profiles incl. re-entrant zero latency; held = held on the executions counted in the evidence.',
         'virtual-time engine (one thread at a time, frame handlers atomic), ref.sniffer for the cross-check; PGN compared with PS cleared for PDU1', 'virtual-time co-simulation + delivery/refusal oracle'),
 'C02': ('exploration', '5 C02', 'As C01 for J1939-22 (61..20000 bytes, 1-8 RTS/CTS + 0-4 BAM sessions, both directions) plus capacity cases: calls beyond 8+4 must return False, emit nothing, and leave the rest intact.',
         'as C01; no zero-latency re-entrancy on J1939-22 (property text)', 'virtual-time co-simulation + delivery/capacity oracle'),
 'C03': ('exploration', '5 C03', 'One real stack against scripted conforming peers written from the SAE layouts (no code shared with the repository), four roles x two layers, peer freedoms seeded or enumerated; '
         'the independent sniffer must decode the stack\'s frames to exactly the submitted message and the stack must decode/acknowledge conforming input exactly.',
         'ref.codec/ref.sniffer/ref.peers are the trusted reference (validated against the literal frame vectors of the pinned suite in tools/selftest.py); documented leniencies', 'independent reference implementation as online oracle'),
 'C04': ('exploration', '5 C04', '2-CA grid enumerated (NAME order x AAC x address relation x range x claim offset x latency profile incl. zero) plus random 3-4-CA runs (thorough: 3-CA grid); '
         'end-state oracle from the bus log and the public state/address properties (unique addresses, lowest NAME holds each contested address, loser behaviour).',
         '20 virtual seconds per run are taken as "settled"; addresses leave room below 247', 'virtual-time co-simulation + end-state oracle'),
 'C05': ('exploration', '5 C05', 'Per stack configuration (claim states x listener kinds, sampled) ALL 256 destination addresses are swept with single frames and, for unowned ones, every transport frame kind; '
         'PDU2, frame flags and foreign sessions; the fired-callback set must equal the set the harness computes from its own bookkeeping; unowned traffic leaves no frame and no table entry.',
         'expected sets never computed with the stack\'s predicates; transport to owned addresses judged by C01-C03', 'exhaustive DA sweep with shadow ownership model'),
 'C06': ('fault_enumeration', '5 C06', 'For every listed transfer shape EVERY fault position k (frame k lost, originator silent from frame k, responder silent from frame k) is executed, followed by a fresh transfer; '
         'oracle: payload exact or nothing, table entry gone within the state\'s time-out of the node\'s last activity (logging dict subclasses), abort present where required, follow-up intact.',
         'time-out measured from the node\'s last session activity; abort reason not judged; tables observed via private attributes (fallback: sizes at the quiet point)', 'exhaustive single-fault injection + time-out monitor'),
 'C07': ('exploration', '5 C07', 'Random protocol-aware frame sequences (1-60 frames, gaps to beyond each time-out) from a scripted node that also answers the stacks\' own frames at once with session-targeted frames '
         '(zero-latency = handled inside the sender\'s send call), interleaved with own send_pgn calls; afterwards liveness (no death, no spin, parked with time-out>0), tables empty/pools full after 3.3 s, probe timer on time, one transfer per direction intact.',
         'spin = 20000 clock reads without blocking; wall-clock watchdog per case (stall inside repository code = violation, else inconclusive)', 'hostile-input fuzzing under liveness monitors'),
 'C08': ('exploration', '5 C08', 'sys.settrace in the job thread parks it at its k-th source line for 0.2/1/5 ms of virtual time while reception on the same stack goes on: EVERY k for every listed shape (succeeding transfers and '
         'transfers failing against a scripted peer), plus sampled double pre-emptions; outcome must equal the un-pre-empted one (delivery count, no spurious abort, tables/pools, threads).',
         'line granularity; handlers atomic; k counted from submission', 'exhaustive single pre-emption injection (line-level schedule control)'),
 'C09': ('exploration', '5 C09', 'Exchanges stack vs conforming peer / stack vs stack; the independent sniffer runs a per-session flow-control automaton on the bus log (clearance, holds incl. expiring ones, sequence, grant <= limit / own max / remaining) '
         'and measures inter-packet gaps against the configured intervals.', 'virtual time stamps of send-backend calls; CMDT interval judged inside one CTS window', 'bus-log flow-control automaton + pacing monitor'),
 'C10': ('exploration', '5 C10', 'Random histories of 1-40 good/failed/aborted/timed-out transfers incl. inbound sessions with arbitrary session numbers, then the capacity probe (8+4 accepted, 9th/5th refused without frame, all delivered; J1939-21 pairs); '
         'refusals during the history must be justified by sessions in progress on the bus; FD pool invariant asserted after every DLL entry point.', 'in-progress derived from the bus log; pools via private attributes', 'history workload + conservation invariant + capacity probe'),
 'C11': ('exploration', '5 C11', 'Random send_pgn sequences (lengths 1..60, destinations, time limits, FEFF/FBFF, app or timer context, idle or busy job thread); the independent decoder must find each submitted group in exactly one legal frame '
         'of the right (format, SA, DA) no later than its limit + 2 ms; receivers get each group exactly once.', 'slack 2 ms; priority of combined frames not judged', 'reference decoder on emitted frames + deadline monitor'),
 'C12': ('exploration', '5 C12', 'Random histories of add/remove timer and (un)subscribe operations from the application and from inside callbacks, some callbacks deliberately slow; a shadow timer model built from the operation log '
         'checks every call against the grid t+j*delta (no drift, no early/late/missing/extra call, nothing after removal).', 'slack 0.5 ms + 100 ppm float quantisation; busy time of slow callbacks is known to the harness', 'shadow-model trace checker'),
 'C13': ('exploration', '5 C13', 'Claim histories driven by a scripted contender; every send entry point called at instants in every state; the CA state is sampled at every frame emission; frames must carry the held address, '
         'never a lost one, never the preferred veto-range address before 249 ms; non-operational calls raise and emit nothing but the request for address claim from 254.', 'state read through the public properties at emission time and cross-checked against the bus', 'per-frame source-address monitor'),
 'C14': ('exploration', '5 C14', 'Configurations of 1-3 CAs per stack in every claim state; requests for boundary/random PGNs to held, global and unowned addresses from CAs with/without address and a scripted node; '
         'callbacks and claim answers must equal the sets computed from the harness\'s record.', 'send_request(data_page=0)', 'shadow-model set comparison'),
 'C15': ('exploration', '5 C15', 'Real codec against the reference bit layouts: quick = all 2^18 PGNs x corner priorities/SAs + random ids, NAME fields swept, walking bits, random; thorough = ALL 2^29 identifiers; arbitration through the real ECU for every single-bit NAME difference in both directions.',
         'reference positions from J1939-21 5.2 / J1939-81 4.1.1; 64-bit NAME space sampled', 'differential testing against reference codec (id space exhaustive in thorough)'),
 'C16': ('exploration', '5 C16', 'DM1 sender/subscribers end to end on both layers for 1..400 codes, boundary SPN/FMI/OC, lamp combinations, stop_send; payload reassembled by the sniffer compared with the reference J1939-73 encoding; DTC and DM22 codecs differential.',
         'J1939-73 layouts as in ref.codec', 'end-to-end trace comparison + differential codec'),
 'C17': ('exploration', '5 C17', '1-5 back-to-back DM14 transactions between real client and server objects with an application model; every byte length 1..255; returned data, handed-over data, proceed arguments and idle states checked.',
         'server application supplies count x size bytes by convention', 'end-to-end transaction oracle'),
 'C18': ('exploration', '5 C18', 'Histories of up to 6 operations mixing wrong key, refusals, error DM15 of every code, absent server with well-formed ones; gate order from the bus log, exception texts, time-out bound, recovery.',
         'EDCP 6/7 for error responses', 'history workload + gate/recovery oracle'),
 'C19': ('fault_enumeration', '5 C19', 'For every transaction shape an intruding DM14 is injected after EVERY bus frame of the transaction (other source address / same address other pointer, once or three times); application never sees it, answers are busy/failed only, running transaction unchanged.',
         'window ends at reception of the closing DM14 (bus order)', 'exhaustive injection point enumeration'),
}

def main():
    checks = []
    for pid in sorted(P):
        level, ref, text, note, tech = P[pid]
        checks.append(dict(property_id=pid,
                           quick_cmd='/venv/bin/python run.py %s --tier quick' % pid,
                           thorough_cmd='/venv/bin/python run.py %s --tier thorough' % pid,
                           evidence_file='evidence/%s.json' % pid,
                           replay_cmd_template='/venv/bin/python run.py %s --replay {path}' % pid,
                           engine='vt',
                           level_claimed=dict(category=level, text=text, design_ref='DESIGN.md section ' + ref),
                           level_note=note, technique='runtime monitoring: ' + tech))
    man = dict(version=1,
               setup_cmd='/venv/bin/python tools/selftest.py',
               hooks=dict(guard='J1939_VERIF',
                          enable='no source hooks exist: the checks import j1939 from /repo\'s working tree in fresh worker processes after substituting time / queue.Queue / threading.Thread process-wide (vt/engine.py) and attach monitors to live objects; the guard variable is not read by the repository',
                          baseline_off_cmd='cd /repo && /venv/bin/python -m pytest -ra -q -p no:cacheprovider --timeout=900 --continue-on-collection-errors',
                          source_commits=[], add_only=True),
               engines=[dict(name='vt', path='vt/', serves_properties=sorted(P), kind_free_text='virtual-time co-simulation of the real stack: baton scheduler, simulated CAN segment, fault / latency / pre-emption injection, per-case worker processes with wall-clock watchdog'),
                        dict(name='ref', path='ref/', serves_properties=['C01', 'C02', 'C03', 'C06', 'C09', 'C10', 'C11', 'C13', 'C14', 'C15', 'C16', 'C19'], kind_free_text='independent SAE J1939 codec, bus sniffer (session reconstruction, flow-control automaton) and scripted conforming peers')],
               checks=checks, not_applicable=[],
               notes='All 19 properties are decided by runtime monitoring of the real code (see DESIGN.md). Exit codes: 0 held on what was observed, 1 violation (VIOLATION line + replay file), 2 inconclusive (a deciding monitor saw too little / harness problem). known_findings.json lists repaired defects (25 "fix:" commits in /repo) and no open findings. Seeded defects used to validate the checks are under seeded/.')
    with open(os.path.join(HERE, 'MANIFEST.json'), 'w') as f:
        json.dump(man, f, indent=1)
        f.write('\n')
    print('MANIFEST.json written: %d checks' % len(checks))

if __name__ == '__main__':
    main()
