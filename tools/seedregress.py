#!/usr/bin/env python3
"""re-run every stored seeded defect against the check of the property it breaks (quick tier; for the few defects that need something outside
that property's quantifier: against the first check recorded as catching it); prints CAUGHT/MISSED per defect"""
import os, sys, json, glob, subprocess
only = sys.argv[1:]
missed = []
for meta in sorted(glob.glob('/verif/seeded/*/meta.json')):
    m = json.load(open(meta))
    if only and not any(o in m['id'] for o in only):
        continue
    d = os.path.dirname(meta)
    # the property's own check, or (where the defect needs something outside that property's quantifier) the checks recorded as catching it
    checks = [m['breaks_property']] if m['breaks_property'] in m.get('caught_by', [m['breaks_property']]) else list(m['caught_by'])[:1]
    r = subprocess.run([sys.executable, '/verif/tools/seedtest.py', d] + checks, capture_output=True, text=True)
    try:
        res = json.loads(r.stdout)
        ok = any(v['rc'] == 1 for v in res['checks'].values())
        print('%-8s %s %s' % (m['id'], 'CAUGHT' if ok else 'MISSED', {k: (v['rc'], v['kinds'][:3]) for k, v in res['checks'].items()}), flush=True)
        if not ok:
            missed.append(m['id'])
    except ValueError:
        print(m['id'], 'ERROR', r.stdout[-300:], r.stderr[-300:], flush=True)
        missed.append(m['id'])
print('missed:', missed)
