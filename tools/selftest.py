#!/venv/bin/python
"""setup_cmd: import-and-self-test of the engine (nothing is downloaded or compiled)."""
import os, sys
HERE = os.path.dirname(os.path.dirname(os.path.abspath(__file__)))
sys.path.insert(0, HERE)
os.environ.setdefault('J1939_REPO', '/repo')
import queue as _q
RealQ = _q.Queue
from vt import engine
from vt.world import World

def main():
    # 1. VQueue semantics against the real queue on scripted cases
    W = World(1)
    sim = W.sim
    log = []
    q = engine.VQueue()
    def consumer():
        for i in range(3):
            try:
                log.append(('got', q.get(True, 0.5), round(sim.now, 3)))
            except engine.Empty:
                log.append(('empty', round(sim.now, 3)))
        try:
            q.get(True, -1)
        except ValueError:
            log.append('valueerror')
    sim.spawn(consumer)
    sim.at(0.1, q.put, 'a')
    sim.at(0.2, q.put, 'b')
    sim.run(until=2)
    assert log[0][:2] == ('got', 'a') and abs(log[0][2] - 0.1) < 0.002, log
    assert log[1][:2] == ('got', 'b') and abs(log[1][2] - 0.2) < 0.002, log
    assert log[2][0] == 'empty' and abs(log[2][1] - 0.7) < 0.002, log
    assert log[3] == 'valueerror', log
    rq = RealQ()
    try:
        rq.get(True, -1)
        raise SystemExit('real queue accepted negative timeout')
    except ValueError:
        pass
    # 2. clock monotone, job thread under control, timer fires in virtual time
    a = W.stack('A')
    t = [sim.time() for _ in range(1000)]
    assert all(x <= y for x, y in zip(t, t[1:])) and t[-1] > t[0]
    fired = []
    t0 = sim.now
    a.ecu.add_timer(0.25, lambda c: fired.append(sim.now - t0) and False)
    sim.run(until=t0 + 1.0)
    assert len(fired) == 1 and 0.25 <= fired[0] < 0.252, fired
    assert a.job_alive() and a.job_parked_with_timeout()
    assert not W.harness_problems, W.harness_problems
    W.close()
    # 2a. virtual locks: a controlled thread and the driver both wait in virtual time for a lock held across a hold; re-entrant variant
    W = World(2, eager=0.0)
    sim = W.sim
    L = engine.VLock()
    RL = engine.VRLock()
    order = []

    def holder():
        with L:
            with RL:
                with RL:
                    order.append(('h-in', round(sim.now, 4)))
                    sim.block_current(until=sim.now + 0.01, waitobj=engine.HOLD, jitter=False)
                    order.append(('h-out', round(sim.now, 4)))

    def other():
        engine._vsleep(0.002)
        with L:
            order.append(('o-in', round(sim.now, 4)))
    sim.spawn(holder, name='H')
    sim.spawn(other, name='O')

    def app():
        order.append(('app-try', round(sim.now, 4)))
        with L:
            order.append(('app-in', round(sim.now, 4)))
    sim.at(0.005, app)
    sim.run(until=1.0)
    names = [o[0] for o in order]
    assert names[:3] == ['h-in', 'app-try', 'h-out'] and set(names[3:]) == {'app-in', 'o-in'}, order
    assert all(t >= 0.01 for (n, t) in order[3:]) and sim.lock_waits == 2 and not sim.held_locks, (order, sim.lock_waits, sim.held_locks)
    assert L.acquire(False) and not L.acquire(False), 'non-blocking acquire'
    L.release()
    # 2b. the job thread of a stack registers with the sleep monitor, a receive thread handles frames in order, the bystander stays quiet
    W.bystander_mode = 'before'
    a = W.stack('A', rx_thread=True)
    b = W.stack('B')
    ca = W.ca(a, 0x10, identity_number=1)
    cb = W.ca(b, 0x20, identity_number=2)
    W.listen_ca(ca, 'A')
    pay = list(range(40))
    sim.at(sim.now + 0.01, lambda: W.call('s', cb.send_pgn, 0, 0xD0, 0x10, 6, pay))
    sim.run(until=sim.now + 3.0)
    assert [d[4] for d in W.deliv['A']] == [bytes(pay)], W.deliv['A']
    assert a.sleep_checks > 0 and not a.sleep_problems and not W.bystander_problems(), (a.sleep_checks, a.sleep_problems, W.bystander_problems())
    W.close()
    # 3. no thread outlives a case
    import threading
    assert threading.active_count() <= 2, threading.enumerate()
    ref_vectors()
    print('selftest ok')


def ref_vectors():
    """the reference codec reproduces the literal frames the maintainers wrote into the pinned tests (test_ecu.py, test_ca.py,
    test_memory_access.py); decoder o encoder is the identity on random messages"""
    import random
    from ref import codec as C
    from ref import sniffer as SN
    from vt.bus import Frame
    pay = bytes([1, 2, 3, 4, 5, 6, 7] * 2 + [1, 2, 3, 4, 5, 6])
    # test_ecu.py: peer to peer receive long
    assert C.make_id(0, 0, 0xEC, 0x02, 0x01) == 0x00EC0201
    assert C.tpcm_rts(20, 1, 0xFEB0) == bytes([16, 20, 0, 3, 1, 176, 254, 0])
    assert C.make_id(7, 0, 0xEC, 0x01, 0x02) == 0x1CEC0102
    assert C.tpcm_cts(1, 1, 0xFEB0) == bytes([17, 1, 1, 255, 255, 176, 254, 0])
    assert C.tpcm_cts(1, 3, 0xFEB0) == bytes([17, 1, 3, 255, 255, 176, 254, 0])
    assert C.tp_dt(1, pay[0:7]) == bytes([1, 1, 2, 3, 4, 5, 6, 7])
    assert C.tp_dt(3, pay[14:20]) == bytes([3, 1, 2, 3, 4, 5, 6, 255])
    assert C.tpcm_eom(20, 3, 0xFEB0) == bytes([19, 20, 0, 3, 255, 176, 254, 0])
    # test_ecu.py: broadcast / peer to peer send long
    assert C.make_id(6, 0, 0xEC, 0xFF, 0x90) == 0x18ECFF90 and C.tpcm_bam(20, 0xFEB0) == bytes([32, 20, 0, 3, 255, 176, 254, 0])
    assert C.make_id(6, 0, 0xEC, 0x9B, 0x90) == 0x18EC9B90 and C.tpcm_rts(20, 1, 0xDF00) == bytes([16, 20, 0, 3, 1, 0, 223, 0])
    assert C.make_id(7, 0, 0xEB, 0x9B, 0x90) == 0x1CEB9B90
    f = C.split_id(0x18F09B90)
    assert (f['prio'], f['pgn'], f['sa'], f['pdu1']) == (6, 0xF09B, 0x90, False)
    f = C.split_id(0x00DC0201)
    assert (f['pgn'], f['da'], f['sa'], f['pdu1']) == (56320, 2, 1, True)
    # test_ca.py: NAME of the generic address claim test and its address-claimed frame
    nv = C.name_value(arbitrary_address_capable=0, industry_group=5, vehicle_system_instance=2, vehicle_system=127, function=201, function_instance=16,
                      ecu_instance=2, manufacturer_code=666, identity_number=1234567)
    assert C.name_bytes(nv) == bytes([135, 214, 82, 83, 130, 201, 254, 82]), C.name_bytes(nv)
    assert C.name_bytes(nv | (1 << 63)) == bytes([135, 214, 82, 83, 130, 201, 254, 210])
    assert C.make_id(6, 0, 0xEE, 0xFF, 0x80) == 0x18EEFF80 and C.make_id(6, 0, 0xEE, 0xFF, 0xFE) == 0x18EEFFFE
    assert C.un_le(bytes([135, 214, 82, 83, 130, 111, 254, 82])) < nv < C.un_le(bytes([135, 214, 82, 83, 130, 222, 254, 82]))
    # test_memory_access.py: DM14 / DM15 / DM16 vectors
    assert C.make_id(6, 0, 0xD9, 0xD4, 0xF9) == 0x18D9D4F9
    assert C.dm14(1, 1, C.DM14_READ, 0x92000003, 7) == bytes([0x01, 0x13, 0x03, 0x00, 0x00, 0x92, 0x07, 0x00])
    assert C.dm14(1, 1, C.DM14_READ, 0x92000003, 0x5AA5) == bytes([0x01, 0x13, 0x03, 0x00, 0x00, 0x92, 0xA5, 0x5A])
    assert C.dm14(1, 1, C.DM14_WRITE, 0x91000007, 7) == bytes([0x01, 0x15, 0x07, 0x00, 0x00, 0x91, 0x07, 0x00])
    assert C.dm14(1, 1, C.DM14_COMPLETED, 0x92000003, 0xFFFF) == bytes([0x01, 0x19, 0x03, 0x00, 0x00, 0x92, 0xFF, 0xFF])
    m = C.parse_dm15(bytes([0x00, 0x11, 0xFF, 0xFF, 0xFF, 0xFF, 0x5A, 0xA5]))
    assert (m['status'], m['seed']) == (C.DM15_PROCEED, 0xA55A)
    m = C.parse_dm15(bytes([0x00, 0x1B, 0x02, 0x00, 0x00, 0x07, 0xFF, 0xFF]))
    assert (m['status'], m['error'], m['edcp']) == (C.DM15_FAILED, 2, 7)
    assert C.dm15(0, C.DM15_FAILED, 2, 7, 0xFFFF, pointer_type=1) == bytes([0x00, 0x1B, 0x02, 0x00, 0x00, 0x07, 0xFF, 0xFF])
    assert C.parse_dm15(bytes([0x00, 0x19, 0xFF, 0xFF, 0xFF, 0xFF, 0xFF, 0xFF]))['status'] == C.DM15_COMPLETED
    assert C.dm16(bytes([0x44, 0x33, 0x22, 0x11])) == bytes([0x04, 0x44, 0x33, 0x22, 0x11])
    # decoder o encoder = identity: random messages through encoder -> sniffer
    rng = random.Random(5)
    for layer in ('j1939-21', 'j1939-22'):
        fd = layer == 'j1939-22'
        for _ in range(60):
            size = rng.randint(61, 900) if fd else rng.randint(9, 400)
            data = bytes(rng.randrange(256) for _ in range(size))
            pgn = rng.choice([0xD000, 0x1C900, 0xFEF6])
            sa, da, ses = rng.randrange(254), rng.randrange(254), rng.randrange(16)
            frames = []
            unit = 60 if fd else 7
            n = (size + unit - 1) // unit
            def fr(pf, ps, s, d):
                frames.append(Frame(len(frames), len(frames) * 0.001, 'X' if s == sa else 'Y', C.make_id(7, 0, pf, ps, s), d, fd))
            if fd:
                fr(C.PF_FD_TP_CM, da, sa, C.fdcm_rts(ses, size, 255, pgn))
                fr(C.PF_FD_TP_CM, sa, da, C.fdcm_cts(ses, 1, n, pgn))
                for k in range(n):
                    fr(C.PF_FD_TP_DT, da, sa, C.fd_dt(ses, k + 1, data[k * 60:(k + 1) * 60]))
                fr(C.PF_FD_TP_CM, da, sa, C.fdcm_eoms(ses, size, pgn))
                fr(C.PF_FD_TP_CM, sa, da, C.fdcm_eoma(ses, size, pgn))
            else:
                fr(C.PF_TP_CM, da, sa, C.tpcm_rts(size, 255, pgn))
                fr(C.PF_TP_CM, sa, da, C.tpcm_cts(n, 1, pgn))
                for k in range(n):
                    fr(C.PF_TP_DT, da, sa, C.tp_dt(k + 1, data[k * 7:(k + 1) * 7]))
                fr(C.PF_TP_CM, sa, da, C.tpcm_eom(size, n, pgn))
            sn = SN.sniff(layer, frames)
            assert not sn.problems, sn.problems[:3]
            assert len(sn.sessions) == 1 and sn.sessions[0].status == 'complete' and sn.sessions[0].payload() == data
    # Multi-PG and DTC round trips
    for _ in range(200):
        cpgs = [(rng.randrange(1 << 18), bytes(rng.randrange(256) for _ in range(rng.randint(1, 12)))) for _ in range(rng.randint(1, 3))]
        g, pr = C.parse_mpg(C.mpg_frame(cpgs))
        assert not pr and [(x[2], x[3]) for x in g] == cpgs
        spn, fmi, oc = rng.randrange(1 << 19), rng.randrange(32), rng.randrange(128)
        d = C.parse_dtc(C.dtc_bytes(spn, fmi, oc))
        assert (d['spn'], d['fmi'], d['oc'], d['cm']) == (spn, fmi, oc, 0)

if __name__ == '__main__':
    main()
