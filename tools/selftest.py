#!/venv/bin/python
"""setup_cmd: import-and-self-test of the engine (nothing is downloaded or compiled)."""
import os, sys
HERE = os.path.dirname(os.path.dirname(os.path.abspath(__file__)))
sys.path.insert(0, HERE)
os.environ.setdefault('J1939_REPO', '/repo')
import queue as _q
RealQ = _q.Queue
from vt import engine
from vt.world import World

def main():
    # 1. VQueue semantics against the real queue on scripted cases
    W = World(1)
    sim = W.sim
    log = []
    q = engine.VQueue()
    def consumer():
        for i in range(3):
            try:
                log.append(('got', q.get(True, 0.5), round(sim.now, 3)))
            except engine.Empty:
                log.append(('empty', round(sim.now, 3)))
        try:
            q.get(True, -1)
        except ValueError:
            log.append('valueerror')
    sim.spawn(consumer)
    sim.at(0.1, q.put, 'a')
    sim.at(0.2, q.put, 'b')
    sim.run(until=2)
    assert log[0][:2] == ('got', 'a') and abs(log[0][2] - 0.1) < 0.002, log
    assert log[1][:2] == ('got', 'b') and abs(log[1][2] - 0.2) < 0.002, log
    assert log[2][0] == 'empty' and abs(log[2][1] - 0.7) < 0.002, log
    assert log[3] == 'valueerror', log
    rq = RealQ()
    try:
        rq.get(True, -1)
        raise SystemExit('real queue accepted negative timeout')
    except ValueError:
        pass
    # 2. clock monotone, job thread under control, timer fires in virtual time
    a = W.stack('A')
    t = [sim.time() for _ in range(1000)]
    assert all(x <= y for x, y in zip(t, t[1:])) and t[-1] > t[0]
    fired = []
    t0 = sim.now
    a.ecu.add_timer(0.25, lambda c: fired.append(sim.now - t0) and False)
    sim.run(until=t0 + 1.0)
    assert len(fired) == 1 and 0.25 <= fired[0] < 0.252, fired
    assert a.job_alive() and a.job_parked_with_timeout()
    assert not W.harness_problems, W.harness_problems
    W.close()
    # 3. no thread outlives a case
    import threading
    assert threading.active_count() <= 2, threading.enumerate()
    print('selftest ok')

if __name__ == '__main__':
    main()
