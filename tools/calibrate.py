#!/usr/bin/env python3
"""run every check for several seeds and compare the minimum of each monitor counter with the check's MIN_OBS threshold
usage: tools/calibrate.py [tier] [seeds...]"""
import os, sys, json, subprocess, importlib
HERE = os.path.dirname(os.path.dirname(os.path.abspath(__file__)))
sys.path.insert(0, HERE)
tier = sys.argv[1] if len(sys.argv) > 1 else 'quick'
seeds = [int(x) for x in sys.argv[2:]] or [1, 2, 3, 4, 5]
only = os.environ.get('ONLY', '').split(',') if os.environ.get('ONLY') else None
for i in range(1, 20):
    c = 'C%02d' % i
    if only and c not in only:
        continue
    mod = importlib.import_module('checks.' + c.lower())
    mins = {}
    rcs = []
    for s in seeds:
        r = subprocess.run(['/venv/bin/python', os.path.join(HERE, 'run.py'), c, '--tier', tier, '--no-evidence'], env=dict(os.environ, VERIF_SEED=str(s), VERIF_PRINT_COUNTERS='1'),
                           capture_output=True, text=True)
        rcs.append(r.returncode)
        for line in r.stdout.splitlines():
            if line.startswith('COUNTERS '):
                for k, v in json.loads(line[9:]).items():
                    mins[k] = min(mins.get(k, v), v)
    out = []
    for k, mn in getattr(mod, 'MIN_OBS', {}).items():
        thr = mn.get(tier, 1) if isinstance(mn, dict) else mn
        m = mins.get(k, 0)
        flag = '' if m >= thr * 1.3 else ('  <-- TIGHT' if m >= thr else '  <-- BELOW')
        out.append('   %-28s min over seeds %-10d threshold %-10d%s' % (k, m, thr, flag))
    print('%s rcs=%s' % (c, rcs))
    print('\n'.join(out), flush=True)
