#!/bin/bash
# run every check (tier $1, default quick) with evidence; print one line per check
cd "$(dirname "$0")/.."
tier=${1:-quick}
rc_all=0
for c in C01 C02 C03 C04 C05 C06 C07 C08 C09 C10 C11 C12 C13 C14 C15 C16 C17 C18 C19; do
  out=$(/venv/bin/python run.py $c --tier $tier 2>&1); rc=$?
  echo "$out" | tail -1
  if [ $rc -ne 0 ]; then rc_all=1; echo "$out" | grep -E "VIOLATION|INCONCLUSIVE|^  " | head -6; fi
done
exit $rc_all
