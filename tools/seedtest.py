#!/usr/bin/env python3
"""Evaluate a seeded defect: tools/seedtest.py <dir with patch.diff [demo.py]> [--confirm] [--tier quick] C01 C07 ...

Creates a scratch git worktree of /repo HEAD under /var/tmp, applies the patch there, optionally confirms it (pinned suite
passes with it; demo fails with it and passes without it), runs the given checks with J1939_REPO pointing at the scratch
tree, prints one line per check, removes the worktree.  /repo itself is never modified."""
import os, sys, subprocess, tempfile, json, shutil, re

def sh(cmd, **kw):
    return subprocess.run(cmd, capture_output=True, text=True, **kw)

def main():
    a = sys.argv[1:]
    d = os.path.abspath(a[0]); rest = a[1:]
    confirm = '--confirm' in rest
    if confirm: rest.remove('--confirm')
    tier = 'quick'
    if '--tier' in rest:
        i = rest.index('--tier'); tier = rest[i + 1]; del rest[i:i + 2]
    wt = tempfile.mkdtemp(prefix='j1939-seed-', dir='/var/tmp'); os.rmdir(wt)
    r = sh(['git', '-C', '/repo', 'worktree', 'add', '-q', '--detach', wt, 'HEAD'])
    if r.returncode: print(r.stderr); return 2
    out = dict(dir=d, checks={})
    try:
        demo = os.path.join(d, 'demo.py')
        def run_demo():
            src = open(demo).read()
            src = re.sub(r'/tmp/wt\d?-c\d+', wt, src)
            p = os.path.join(wt, '_demo.py'); open(p, 'w').write(src)
            try:
                r = sh(['/venv/bin/python', p], cwd=wt, env=dict(os.environ, PYTHONPATH=wt), timeout=300)
                return r.returncode, (r.stdout + r.stderr)[-400:]
            except subprocess.TimeoutExpired:
                return 'timeout', ''
            finally:
                os.unlink(p)
        if confirm and os.path.exists(demo):
            out['demo_without'] = run_demo()[0]
        r = sh(['git', '-C', wt, 'apply', os.path.join(d, 'patch.diff')])
        if r.returncode:
            print('PATCH DOES NOT APPLY', r.stderr); out['applies'] = False; return 2
        out['applies'] = True
        if confirm:
            r = sh(['/venv/bin/python', '-m', 'pytest', '-q', '-p', 'no:cacheprovider', '--timeout=900'], cwd=wt, env=dict(os.environ, PYTHONPATH=wt))
            out['pytest'] = r.stdout.strip().splitlines()[-1] if r.stdout.strip() else r.stderr[-200:]
            if os.path.exists(demo):
                rc, tail = run_demo(); out['demo_with'] = rc; out['demo_tail'] = tail[-200:]
        env = dict(os.environ, J1939_REPO=wt)
        for c in rest:
            r = sh(['/venv/bin/python', '/verif/run.py', c, '--tier', tier, '--no-evidence'], env=env)
            kinds = sorted(set(re.findall(r'kind=(\w+)', r.stdout)))
            out['checks'][c] = dict(rc=r.returncode, kinds=kinds[:8], last=r.stdout.strip().splitlines()[-1][-120:] if r.stdout.strip() else r.stderr[-200:])
        print(json.dumps(out, indent=1))
    finally:
        sh(['git', '-C', '/repo', 'worktree', 'remove', '--force', wt])
        shutil.rmtree(wt, ignore_errors=True)

if __name__ == '__main__':
    sys.exit(main())
