#!/usr/bin/env python3
"""writes /verif/seeded/INDEX.md: one row per stored seeded defect (what it needs to manifest, which checks catch it)"""
import json, glob, os
rows = []
for f in sorted(glob.glob('/verif/seeded/*/meta.json')):
    m = json.load(open(f))
    c = m['confirmed']
    rows.append('| %s | %s | %s | %s | suite: %s; demo without/with: %s/%s |' % (m['id'], m['breaks_property'], m['needs_to_manifest'].replace('|', '/'), ' '.join(m['caught_by']) or '**none**',
                (c.get('pinned_suite_with_change') or '?').split(',')[0], c.get('demo_exit_without_change'), c.get('demo_exit_with_change')))
out = ['# Seeded defects', '', 'Produced by independent sub-agents (given only the property text and a scratch worktree), confirmed here, stored with patch, demo, notes and meta.json.',
       'Regression: `tools/seedregress.py` re-applies each one to a scratch worktree and runs the quick tier of the property\'s check.', '',
       '| id | property | needs, in order to manifest | caught by (quick tier) | confirmation |', '|---|---|---|---|---|'] + rows + ['', '%d seeded defects.' % len(rows), '']
open('/verif/seeded/INDEX.md', 'w').write('\n'.join(out))
print(len(rows), 'rows')
