#!/usr/bin/env python3
"""Sensitivity helper: apply one textual mutation to a scratch copy of /repo/j1939 and run checks on it.

usage: tools/mut.py <file> <old> <new> -- C01 [C03 ...] [--tier quick] [--pytest]
The scratch copy lives under /var/tmp and is removed afterwards.  /repo is never touched.
"""
import os, sys, shutil, subprocess, tempfile

def main():
    a = sys.argv[1:]
    i = a.index('--')
    f, old, new = a[0], a[1], a[2]
    rest = a[i + 1:]
    tier = 'quick'
    if '--tier' in rest:
        j = rest.index('--tier'); tier = rest[j + 1]; del rest[j:j + 2]
    do_pytest = '--pytest' in rest
    if do_pytest: rest.remove('--pytest')
    d = tempfile.mkdtemp(prefix='j1939-scratch-', dir='/var/tmp')
    try:
        shutil.copytree('/repo/j1939', os.path.join(d, 'j1939'))
        for extra in ('test', 'test_helpers', 'setup.cfg', 'setup.py'):
            src = os.path.join('/repo', extra)
            if os.path.isdir(src): shutil.copytree(src, os.path.join(d, extra))
            elif os.path.exists(src): shutil.copy(src, d)
        p = os.path.join(d, 'j1939', f)
        s = open(p).read()
        if s.count(old) < 1:
            print('pattern not found'); return 2
        s = s.replace(old, new, 1)
        open(p, 'w').write(s)
        env = dict(os.environ, J1939_REPO=d)
        if do_pytest:
            r = subprocess.run(['/venv/bin/python', '-m', 'pytest', '-q', '-x', '-p', 'no:cacheprovider', '--timeout=900'], cwd=d,
                               env=dict(os.environ, PYTHONPATH=d), capture_output=True, text=True)
            print('pytest rc', r.returncode, r.stdout.strip().splitlines()[-1:] )
        rc_all = {}
        for c in rest:
            r = subprocess.run(['/venv/bin/python', '/verif/run.py', c, '--tier', tier, '--no-evidence'], env=env, capture_output=True, text=True)
            lines = [l for l in r.stdout.splitlines() if l.startswith(('VIOLATION', 'INCONCLUSIVE', '  kind', c))]
            print('\n'.join(lines[:6]) if lines else r.stdout[-500:] + r.stderr[-500:])
            rc_all[c] = r.returncode
        print('RESULT', rc_all)
    finally:
        shutil.rmtree(d, ignore_errors=True)

if __name__ == '__main__':
    sys.exit(main())
