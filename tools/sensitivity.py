#!/usr/bin/env python3
"""Sensitivity catalogue (DESIGN.md section 8.2): deliberate small breaks, each applied alone to a scratch copy of /repo/j1939 and
run against the quick tier of the checks that should notice.  Prints one line per mutation:  CAUGHT by <checks> | MISSED.

usage: tools/sensitivity.py [substring filter] [--pytest]
"""
import os, sys, shutil, subprocess, tempfile, json, re

M = [
 # id, file, old, new, checks
 ('tp21-packets-rounding', 'j1939_21.py', "num_packets = int(message_size / 7) if (message_size % 7 == 0) else int(message_size / 7) + 1", "num_packets = int(message_size / 7) + 1", ['C01', 'C03']),
 ('tp21-seq-base0', 'j1939_21.py', "                            data.insert(0, package+1)", "                            data.insert(0, package)", ['C01', 'C03']),
 ('tp21-padding-byte', 'j1939_21.py', "                                while len(data)<7:\n                                    data.append(255)\n                            data.insert(0, package+1)", "                                while len(data)<7:\n                                    data.append(0)\n                            data.insert(0, package+1)", ['C03']),
 ('tp21-rts-size-be', 'j1939_21.py', "data = [self.ConnectionMode.RTS, message_size & 0xFF, (message_size >> 8) & 0xFF, num_packets, max_cmdt_packets,", "data = [self.ConnectionMode.RTS, (message_size >> 8) & 0xFF, message_size & 0xFF, num_packets, max_cmdt_packets,", ['C03']),
 ('tp21-cts-reserved', 'j1939_21.py', "data = [self.ConnectionMode.CTS, num_packets, next_packet, 0xFF, 0xFF,", "data = [self.ConnectionMode.CTS, num_packets, next_packet, 0x00, 0xFF,", ['C03']),
 ('tp21-eom-wrong-count', 'j1939_21.py', "data = [self.ConnectionMode.EOM_ACK, message_size & 0xFF, (message_size >> 8) & 0xFF, num_packets, 0xFF,", "data = [self.ConnectionMode.EOM_ACK, message_size & 0xFF, (message_size >> 8) & 0xFF, 0xFF, 0xFF,", ['C03']),
 ('tp21-truncate-missing', 'j1939_21.py', "            self._rcv_buffer[buffer_hash]['data'] = self._rcv_buffer[buffer_hash]['data'][:self._rcv_buffer[buffer_hash]['message_size']]", "            pass", ['C01', 'C03']),
 ('tp21-window-arith', 'j1939_21.py', "self._snd_buffer[buffer_hash]['next_wait_on_cts'] = self._snd_buffer[buffer_hash]['next_packet_to_send'] + num_packages - 1", "self._snd_buffer[buffer_hash]['next_wait_on_cts'] = self._snd_buffer[buffer_hash]['next_packet_to_send'] + num_packages", ['C01', 'C09', 'C03']),
 ('tp21-state-after-send', 'j1939_21.py', "                            # state is ready for recv - Now send the message\n                            self.__send_tp_dt(buf['src_address'], buf['dest_address'], data)\n                            if should_break:\n                                break", "                            if should_break:\n                                self.__send_tp_dt(buf['src_address'], buf['dest_address'], data)\n                                break\n                            self.__send_tp_dt(buf['src_address'], buf['dest_address'], data)", []),
 ('tp21-hold-as-grant', 'j1939_21.py', "            if num_packages == 0:\n                # SAE J1939/21", "            if num_packages == 0 and False:\n                # SAE J1939/21", ['C09', 'C03']),
 ('tp21-grant-unclipped', 'j1939_21.py', "                    'next_packet': min(self._max_cmdt_packets, max_num_packages),\n                    'max_cmdt_packages': self._max_cmdt_packets,\n                    'num_packages_max_rec': min(self._max_cmdt_packets, max_num_packages),", "                    'next_packet': self._max_cmdt_packets,\n                    'max_cmdt_packages': self._max_cmdt_packets,\n                    'num_packages_max_rec': self._max_cmdt_packets,", ['C09', 'C03']),
 ('tp21-bam-interval', 'j1939_21.py', "                            buf['deadline'] = time.time() + self._minimum_tp_bam_dt_interval\n                            # recalc next wakeup", "                            buf['deadline'] = time.time() + self.Timeout.Tb\n                            # recalc next wakeup", ['C09']),
 ('tp21-t3-constant', 'j1939_21.py', "        T3 = 1.250", "        T3 = 2.500", ['C06']),
 ('tp21-t1-constant', 'j1939_21.py', "        T1 = 0.750", "        T1 = 1.750", ['C06']),
 ('tp21-no-abort-on-timeout', 'j1939_21.py', "                        self.__send_tp_abort(buf['src_address'], buf['dest_address'], self.ConnectionAbortReason.TIMEOUT, buf['pgn'])\n                        # TODO: should we notify our CAs about the cancelled transfer?\n                        del self._snd_buffer[bufid]", "                        # TODO: should we notify our CAs about the cancelled transfer?\n                        del self._snd_buffer[bufid]", ['C06']),
 ('tp21-no-wakeup-after-dt', 'j1939_21.py', "        self._rcv_buffer[buffer_hash]['deadline'] = time.time() + self.Timeout.T1\n        self.__job_thread_wakeup()", "        self._rcv_buffer[buffer_hash]['deadline'] = time.time() + self.Timeout.T1", ['C06']),
 ('tp21-dest-filter-dropped', 'j1939_21.py', "                if reject == True:\n                    return\n\n        if pgn_value == ParameterGroupNumber.PGN.ADDRESSCLAIM:", "                if reject == True:\n                    pass\n\n        if pgn_value == ParameterGroupNumber.PGN.ADDRESSCLAIM:", ['C05']),
 ('tp21-snapshot-dropped', 'j1939_21.py', "        for bufid in list(self._rcv_buffer):\n            buf = self._rcv_buffer.get(bufid)", "        for bufid in self._rcv_buffer:\n            buf = self._rcv_buffer.get(bufid)", ['C08']),
 ('tp21-cts-handler-order', 'j1939_21.py', "            self._snd_buffer[buffer_hash]['next_wait_on_cts'] = self._snd_buffer[buffer_hash]['next_packet_to_send'] + num_packages - 1\n\n            self._snd_buffer[buffer_hash]['state'] = self.SendBufferState.SENDING_IN_CTS\n            self._snd_buffer[buffer_hash]['deadline'] = time.time()\n", "            self._snd_buffer[buffer_hash]['state'] = self.SendBufferState.SENDING_IN_CTS\n            self._snd_buffer[buffer_hash]['deadline'] = time.time()\n            self._snd_buffer[buffer_hash]['next_wait_on_cts'] = self._snd_buffer[buffer_hash]['next_packet_to_send'] + num_packages - 1\n", ['C08']),
 ('tp22-cts-handler-order', 'j1939_22.py', "            self._snd_buffer[buffer_hash]['next_wait_on_cts'] = self._snd_buffer[buffer_hash]['next_packet_to_send'] + num_segments - 1\n\n            self._snd_buffer[buffer_hash]['state'] = self.SendBufferState.SENDING_RTS_CTS\n            self._snd_buffer[buffer_hash]['deadline'] = time.time() # wake up immediately\n", "            self._snd_buffer[buffer_hash]['state'] = self.SendBufferState.SENDING_RTS_CTS\n            self._snd_buffer[buffer_hash]['deadline'] = time.time() # wake up immediately\n            self._snd_buffer[buffer_hash]['next_wait_on_cts'] = self._snd_buffer[buffer_hash]['next_packet_to_send'] + num_segments - 1\n", ['C08']),
 ('ecu-timers-class-attr', 'electronic_control_unit.py', "        self._timer_events = []\n", "        self._timer_events = ElectronicControlUnit.__init__.__dict__.setdefault('shared_timers', [])\n", ['C12']),
 ('ecu-subscribers-class-attr', 'electronic_control_unit.py', "        self._subscribers = []\n", "        self._subscribers = ElectronicControlUnit.__init__.__dict__.setdefault('shared_subscribers', [])\n", ['C05', 'C12']),
 ('tp21-buffer-hash', 'j1939_21.py', "        return ((src_address & 0xFF) << 8) | (dest_address & 0xFF)", "        return ((src_address & 0x7F) << 8) | (dest_address & 0xFF)", ['C01']),
 ('tp22-segments-rounding', 'j1939_22.py', "num_segments = int(message_size / self.DataLength.TP ) + ((message_size % self.DataLength.TP ) != 0)", "num_segments = int(message_size / self.DataLength.TP ) + 1", ['C02', 'C03']),
 ('tp22-session-nibble', 'j1939_22.py', "        data[0]  = ( (TpControlType & 0xF) | ((session_num & 0xF) << 4))", "        data[0]  = ( (TpControlType & 0xF) | ((session_num & 0x7) << 4))", ['C03', 'C02', 'C10']),
 ('tp22-dt-padding', 'j1939_22.py', "            while len(data)<next_valid_fd_length:\n                data.append(255)\n\n        self.__send_message(mid.can_id, True, data, fd_format=True)", "            while len(data)<next_valid_fd_length:\n                data.append(0)\n\n        self.__send_message(mid.can_id, True, data, fd_format=True)", ['C03']),
 ('tp22-extra-release', 'j1939_22.py', "            del self._rcv_buffer[buffer_hash]\n\n        elif control_byte == self.TpControlType.EOM_ACK:", "            del self._rcv_buffer[buffer_hash]\n            self._J1939_22__put_rts_cts_session(session_num)\n\n        elif control_byte == self.TpControlType.EOM_ACK:", ['C02', 'C10']),
 ('tp22-missing-release', 'j1939_22.py', "                    elif buf['state'] == self.SendBufferState.EOM_ACK_RECEIVED:\n                        # TODO: should we inform the application about the successful transmission?\n                        del self._snd_buffer[bufid]\n                        self.__put_rts_cts_session(buf['session'])", "                    elif buf['state'] == self.SendBufferState.EOM_ACK_RECEIVED:\n                        # TODO: should we inform the application about the successful transmission?\n                        del self._snd_buffer[bufid]", ['C02', 'C10']),
 ('tp22-t5-constant', 'j1939_22.py', "        T5 = 3.000", "        T5 = 6.000", ['C06']),
 ('mpg-fit-constant', 'j1939_22.py', "elif (self._multi_pg_snd_buffer[hash]['fill_level'] <= (self.DataLength.TP - data_length)):", "elif (self._multi_pg_snd_buffer[hash]['fill_level'] <= (self.DataLength.TP + 4 - data_length)):", ['C11']),
 ('mpg-header-bits', 'j1939_22.py', "            data.append( (cpg['tos'] << 5) | (cpg['tf'] << 2) | ((cpg['cpgn'] >> 16) & 0x3) )", "            data.append( (cpg['tos'] << 5) | (cpg['tf'] << 2) | ((cpg['cpgn'] >> 16) & 0x1) )", ['C11']),
 ('mpg-padding-parsed', 'j1939_22.py', "            if padding_cnt < 3:\n                data.append(0)", "            if padding_cnt < 3:\n                data.append(0x40)", ['C11']),
 ('mpg-key-omits-dest', 'j1939_22.py', "        return ((frame_format & 0xFF) << 24) | ((msg_counter & 0xFF) << 16) | ((src_address & 0xFF) << 8) | (dest_address & 0xFF)", "        return ((frame_format & 0xFF) << 24) | ((msg_counter & 0xFF) << 16) | ((src_address & 0xFF) << 8)", ['C11']),
 ('mpg-deadline-min', 'j1939_22.py', "                        if self._multi_pg_snd_buffer[hash]['deadline'] > deadline:", "                        if self._multi_pg_snd_buffer[hash]['deadline'] < deadline:", ['C11']),
 ('claim-inverted-compare', 'controller_application.py', "            if self._name.value > contenders_name.value:", "            if self._name.value < contenders_name.value:", ['C04', 'C15']),
 ('claim-veto-range', 'controller_application.py', "if self._device_address_announced > 127 and self._device_address_announced < 248:", "if self._device_address_announced > 128 and self._device_address_announced < 248:", ['C13', 'C04']),
 ('claim-no-cannot-claim-frame', 'controller_application.py', "                    self._send_address_claimed(j1939.ParameterGroupNumber.Address.NULL) # send CANNOT CLAIM", "                    pass", ['C04']),
 ('claim-ignored-in-wait-veto', 'controller_application.py', "            or (self._device_address_state == ControllerApplication.State.WAIT_VETO and src_address == self._device_address_announced)", "            or (False and src_address == self._device_address_announced)", ['C04']),
 ('claim-step-2', 'controller_application.py', "                    self._device_address_announced += 1", "                    self._device_address_announced += 2", []),
 ('send-guard-removed', 'controller_application.py', "    def send_message(self, priority, parameter_group_number, data):\n        if self.state != ControllerApplication.State.NORMAL:\n            raise RuntimeError(\"Could not send message unless address claiming has finished\")", "    def send_message(self, priority, parameter_group_number, data):\n        if False:\n            raise RuntimeError(\"Could not send message unless address claiming has finished\")", ['C13']),
 ('request-from-preferred', 'controller_application.py', "            source_address = j1939.ParameterGroupNumber.Address.NULL\n        else:", "            source_address = self._device_address_preferred\n        else:", ['C13', 'C14']),
 ('request-byte-order', 'controller_application.py', "        pgn = data[0] | (data[1] << 8) | (data[2] << 16)\n        src_address = mid.source_address\n\n        if (self.state", "        pgn = data[2] | (data[1] << 8) | (data[0] << 16)\n        src_address = mid.source_address\n\n        if (self.state", ['C14']),
 ('claim-answer-dropped', 'controller_application.py', "            # answer the request with our name...\n            self._send_address_claimed(self._device_address)", "            # answer the request with our name...\n            pass", ['C14']),
 ('request-callback-twice', 'controller_application.py', "            for subscriber in self._subscribers_request:\n                subscriber(src_address, dest_address, pgn)", "            for subscriber in self._subscribers_request:\n                subscriber(src_address, dest_address, pgn)\n                if dest_address == 255: subscriber(src_address, dest_address, pgn)", ['C14']),
 ('mid-sa-mask', 'message_id.py', "        self.source_address = can_id & 0xFF", "        self.source_address = can_id & 0x7F", ['C15']),
 ('mid-pgn-mask', 'message_id.py', "        self.parameter_group_number = (can_id >> 8) & 0x3FFFF", "        self.parameter_group_number = (can_id >> 8) & 0x1FFFF", ['C15']),
 ('pgn-pdu2-boundary', 'parameter_group_number.py', "return True if self.pdu_format>=240 and self.pdu_format<=255 else False", "return True if self.pdu_format>240 and self.pdu_format<=255 else False", ['C15', 'C05']),
 ('name-mfg-mask', 'name.py', "        self.manufacturer_code = (value >> 21) & ((2 ** 11) - 1)", "        self.manufacturer_code = (value >> 21) & ((2 ** 10) - 1)", ['C15']),
 ('name-bytes-order', 'name.py', "        self.value = int.from_bytes(value, byteorder='little', signed=False)", "        self.value = int.from_bytes(value, byteorder='big', signed=False)", ['C15', 'C04']),
 ('dtc-fmi-mask', 'diagnostic_messages.py', "            self._fmi = ((dtc >> 16) & 0x1F)", "            self._fmi = ((dtc >> 16) & 0x0F)", ['C16']),
 ('dtc-spn-high', 'diagnostic_messages.py', "self._dtc = ((spn & 0xFFFF) | ((spn & 0x70000) << 5)", "self._dtc = ((spn & 0xFFFF) | ((spn & 0x30000) << 5)", ['C16']),
 ('lamp-table', 'diagnostic_messages.py', "_DATA_LUT = {OFF: [0,3], ON: [1,3], ON_SLOW_FLASH: [1,0], ON_FAST_FLASH: [1,1], NA: [3,3]}", "_DATA_LUT = {OFF: [0,3], ON: [1,3], ON_SLOW_FLASH: [1,1], ON_FAST_FLASH: [1,0], NA: [3,3]}", ['C16']),
 ('timer-rearm-from-now', 'electronic_control_unit.py', "                        while event['deadline'] <= now:\n                            # just to take care of overruns\n                            event['deadline'] += event['delta_time']", "                        event['deadline'] = time.time() + event['delta_time']", ['C12']),
 ('timer-no-wakeup-on-add', 'electronic_control_unit.py', "        self._timer_events.append( d )\n        self._job_thread_wakeup()", "        self._timer_events.append( d )", ['C12']),
 ('listener-flag-guard', 'electronic_control_unit.py', "if self.stopped or msg.is_error_frame or msg.is_remote_frame or (msg.is_extended_id == False):", "if self.stopped or msg.is_error_frame or (msg.is_extended_id == False):", ['C05']),
 ('listener-exception-containment', 'electronic_control_unit.py', "        try:\n            self.ecu.notify(msg.arbitration_id, msg.data, msg.timestamp)\n        except Exception as e:\n            # Exceptions in any callbaks should not affect CAN processing\n            logger.error(str(e))", "        self.ecu.notify(msg.arbitration_id, msg.data, msg.timestamp)", ['C07']),
 ('dm14-key-check-bypass', 'Dm14Server.py', "        return True if self._key_from_seed(seed) == key else False", "        return True if (self._key_from_seed(seed) == key or key == 0xFFFF) else False", ['C18']),
 ('dm14-key-check-always', 'Dm14Server.py', "        return True if self._key_from_seed(seed) == key else False", "        return True", ['C18']),
 ('dm14-busy-check-bypass', 'Dm14Server.py', "            (self.sa is not None and sa != self.sa)\n            or (", "            (False)\n            or (", ['C19']),
 ('dm14-pointer-check-bypass', 'Dm14Server.py', "                self.address is not None and self.address != data[2 : (self.length - 2)]", "                False", ['C19']),
 ('dm14-signed-ignored', 'Dm14Query.py', "                    signed=self.signed,", "                    signed=False,", ['C17']),
 ('dm14-error-text', 'Dm14Query.py', 'f"Device {hex(sa)} error: {hex(error)} {j1939.ErrorInfo[error]} edcp: {hex(edcp)}"', 'f"Device {hex(sa)} error: {j1939.ErrorInfo[error]} edcp: {hex(edcp)}"', ['C18']),
 ('dm14-pointer-le', 'Dm14Query.py', 'pointer = self.address.to_bytes(length=4, byteorder="little")', 'pointer = self.address.to_bytes(length=4, byteorder="big")', ['C17']),
 ('dm14-direct-bit', 'Dm14Server.py', "                self.pointer_type = (data[1] >> 4) & 0x1", "                self.pointer_type = (data[1] >> 5) & 0x1", ['C17']),
]


def main():
    args = sys.argv[1:]
    do_pytest = '--pytest' in args
    if do_pytest:
        args.remove('--pytest')
    filt = args[0] if args else ''
    rows = []
    for (mid, f, old, new, checks) in M:
        if filt and filt not in mid:
            continue
        d = tempfile.mkdtemp(prefix='j1939-scratch-', dir='/var/tmp')
        try:
            shutil.copytree('/repo/j1939', os.path.join(d, 'j1939'))
            p = os.path.join(d, 'j1939', f)
            s = open(p).read()
            if old not in s:
                rows.append((mid, 'PATTERN NOT FOUND', ''))
                print('%-32s PATTERN NOT FOUND' % mid, flush=True)
                continue
            open(p, 'w').write(s.replace(old, new, 1))
            r = subprocess.run(['/venv/bin/python', '-c', 'import sys; sys.path.insert(0, %r); import j1939' % d], capture_output=True, text=True)
            if r.returncode:
                print('%-32s DOES NOT IMPORT' % mid, flush=True)
                continue
            pt = ''
            if do_pytest:
                for sub in ('test', 'test_helpers'):
                    shutil.copytree(os.path.join('/repo', sub), os.path.join(d, sub))
                r = subprocess.run(['/venv/bin/python', '-m', 'pytest', '-q', '-x', '-p', 'no:cacheprovider', '--timeout=900'], cwd=d, env=dict(os.environ, PYTHONPATH=d), capture_output=True, text=True)
                pt = 'suite:' + ('pass' if r.returncode == 0 else 'FAIL')
            caught = []
            for c in checks:
                r = subprocess.run(['/venv/bin/python', os.path.join(os.path.dirname(os.path.dirname(os.path.abspath(__file__))), 'run.py'), c, '--tier', 'quick', '--no-evidence'],
                                   env=dict(os.environ, J1939_REPO=d), capture_output=True, text=True)
                kinds = sorted(set(re.findall(r'kind=(\w+)', r.stdout)))
                if r.returncode == 1:
                    caught.append('%s(%s)' % (c, ','.join(kinds[:2])))
                elif r.returncode == 2:
                    caught.append('%s(INCONCLUSIVE)' % c)
            status = ('CAUGHT by ' + ' '.join(caught)) if caught else ('MISSED' if checks else 'no check listed')
            print('%-32s %s %s' % (mid, status, pt), flush=True)
            rows.append((mid, status, pt))
        finally:
            shutil.rmtree(d, ignore_errors=True)
    missed = [r for r in rows if r[1].startswith('MISSED')]
    print('\n%d mutations, %d missed' % (len(rows), len(missed)))


if __name__ == '__main__':
    main()
